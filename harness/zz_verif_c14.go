package trzsz

// C14 — a relay only narrows what the ends negotiate, and recovers after every transfer
// (DESIGN.md §3 C14). (i) every client capability set x server configuration through the real relay's
// handshake; (ii) sequences of transfers (success, refused, failed on either side, interrupted)
// through the same relay instances in the world, each followed by a transparency probe and a
// transfer that must succeed; the end-of-transfer message cut at every position.

import (
	"encoding/json"
	"fmt"
	"os"
	"reflect"
	"strconv"
	"strings"
	"time"

	vs "github.com/trzsz/trzsz-go/zzverif/vsched"
)

type c14Params struct {
	Mode    string    `json:"mode"` // "handshake" | "history" | "exitcut"
	Shard   int       `json:"shard"`
	NShards int       `json:"nshards"`
	Tmux    bool      `json:"tmux,omitempty"`
	W       []wParams `json:"w,omitempty"`
}

type c14Action struct {
	transferAction
}

func c14Actions() []transferAction {
	var out []transferAction
	for _, bin := range []bool{false, true} {
		for _, dir := range []bool{false, true} {
			for _, fork := range []bool{false, true} {
				for proto := 1; proto <= 9; proto++ {
					for _, nl := range []string{"\n", "!\n"} {
						for _, tun := range []bool{false, true} {
							for _, conf := range []bool{true, false} {
								out = append(out, transferAction{Lang: "go", Version: "1.1.8", Confirm: conf, Newline: nl, Protocol: proto, SupportBinary: bin, SupportDirectory: dir, TunnelConnected: tun, SupportFork: fork})
							}
						}
					}
				}
			}
		}
	}
	return out
}

func c14Configs() []map[string]any {
	var out []map[string]any
	opts := []string{"quiet", "binary", "directory", "overwrite", "fork"}
	for mask := 0; mask < 1<<len(opts); mask++ {
		for _, buf := range []int64{1024, 10 * 1024 * 1024} {
			for _, to := range []int{0, 20} {
				for _, width := range []int{-1, 0, 80} {
					for _, comp := range []int{0, 1, 2} {
						m := map[string]any{"lang": "go", "bufsize": buf, "timeout": to, "protocol": 4}
						for i, o := range opts {
							if mask&(1<<i) != 0 {
								m[o] = true
							}
						}
						if width >= 0 {
							m["tmux_pane_width"] = width
						}
						if comp != 0 {
							m["compress"] = comp
						}
						out = append(out, m)
						// the same configuration from a server that itself runs inside tmux
						mj := map[string]any{"tmux_output_junk": true}
						for k, v := range m {
							mj[k] = v
						}
						out = append(out, mj)
					}
				}
			}
		}
	}
	return out
}

// c14Handshake pushes one (action, config) pair through a fresh real relay and returns what came out.
func c14Handshake(act transferAction, cfg map[string]any) (fwdAct, fwdCfg string, status int32, problem string) {
	clientIn, serverOut := vs.NewPipe("clientIn"), vs.NewPipe("serverOut")
	clientOut, serverIn := vs.NewSink("clientOut"), vs.NewSink("serverIn")
	relay := NewTrzszRelay(clientIn, clientOut, serverIn, serverOut, TrzszOptions{})
	if os.Getenv("VERIF_DEBUG") != "" && os.Getenv("TMUX") != "" {
		fmt.Fprintf(os.Stderr, "relay tmux mode %d width %d\n", relay.tmuxMode, relay.tmuxPaneWidth)
	}
	id := fmt.Sprintf("%013d", (vs.Now().UnixMilli()%10e10)*100+int64(vs.StepNow()%97)*1000)
	serverOut.Inject([]byte("\x1b7\x07::TRZSZ:TRANSFER:S:1.1.8:" + id + ":0\r\n"))
	vs.WaitSettled(func() bool { return strings.Contains(string(clientOut.Written), "#R") }, 200)
	actJSON, _ := json.Marshal(&act)
	clientIn.Inject([]byte("#ACT:" + encodeString(string(actJSON)) + "\n"))
	vs.WaitSettled(func() bool { return strings.Contains(string(serverIn.Written), "#ACT:") }, 200)
	if act.Confirm && !act.TunnelConnected {
		// (with a tunnel the configuration travels over the tunnel; that path is exercised end to end in the world runs)
		cfgJSON, _ := json.Marshal(cfg)
		serverOut.Inject([]byte("#CFG:" + encodeString(string(cfgJSON)) + act.Newline)) // the server frames lines as the client asked
		vs.WaitSettled(func() bool { return strings.Contains(string(clientOut.Written), "#CFG:") }, 200)
	}
	vs.Peek(func() { status = relay.relayStatus.Load() })
	for _, l := range decodeLines(serverIn.Written, "ACT") {
		fwdAct = l
	}
	for _, l := range decodeLines(clientOut.Written, "CFG") {
		fwdCfg = l
	}
	if l := decodeLines(clientOut.Written, "FAIL"); len(l) > 0 {
		problem = "relay reported: " + clipStr(l[0], 200)
	}
	// let the relay's goroutines finish
	clientIn.CloseWrite()
	serverOut.CloseWrite()
	vs.WaitSettled(func() bool { return true }, 100)
	return
}

func c14CheckHandshake(act transferAction, cfg map[string]any, fwdAct, fwdCfg string, status int32, problem string, tmux bool) string {
	if problem != "" {
		return problem
	}
	// ACT: only binary (off without a tunnel) and protocol (clamped to what the relay understands) may change
	var got transferAction
	if err := json.Unmarshal([]byte(fwdAct), &got); err != nil {
		return fmt.Sprintf("the relay forwarded an undecodable ACT %q: %v", clipStr(fwdAct, 100), err)
	}
	want := act
	if !act.TunnelConnected {
		want.SupportBinary = false
	}
	if want.Protocol > kProtocolVersion {
		want.Protocol = kProtocolVersion
	}
	if got.SupportBinary && !act.TunnelConnected {
		return "the relay let binary mode through without a tunnel"
	}
	if got.Protocol > kProtocolVersion || got.Protocol > act.Protocol {
		return fmt.Sprintf("the relay raised the protocol version: client %d, forwarded %d", act.Protocol, got.Protocol)
	}
	if got != want {
		return fmt.Sprintf("the relay changed more of the action than binary/protocol: client %+v forwarded %+v", act, got)
	}
	if act.Confirm && act.TunnelConnected {
		return ""
	}
	if !act.Confirm {
		if status != kRelayStandBy {
			return fmt.Sprintf("after a refused transfer the relay is in status %d, not standby", status)
		}
		return ""
	}
	// CFG: what the client will decode must equal what it would decode from the server's own line, plus the tmux constraints
	decode := func(js string) (*transferConfig, error) {
		c := &transferConfig{Timeout: 20, Newline: "\n", MaxBufSize: 10 * 1024 * 1024}
		return c, json.Unmarshal([]byte(js), c)
	}
	orig, _ := json.Marshal(cfg)
	wantCfg, err := decode(string(orig))
	if err != nil {
		return ""
	}
	gotCfg, err := decode(fwdCfg)
	if err != nil {
		return fmt.Sprintf("the relay forwarded an undecodable CFG %q: %v", clipStr(fwdCfg, 100), err)
	}
	if tmux {
		wantCfg.TmuxOutputJunk = true
		if wantCfg.TmuxPaneColumns <= 0 {
			wantCfg.TmuxPaneColumns = gotCfg.TmuxPaneColumns
		}
	}
	if !reflect.DeepEqual(wantCfg, gotCfg) {
		return fmt.Sprintf("the relay altered the server's configuration: server %+v, forwarded %+v", *wantCfg, *gotCfg)
	}
	if status != kRelayTransferring {
		return fmt.Sprintf("after a confirmed handshake the relay is in status %d, not transferring", status)
	}
	return ""
}

func c14RunHandshakes(j vs.Job, p c14Params) *vs.JobResult {
	r := &vs.JobResult{Outcomes: map[string]int64{}}
	acts, cfgs := c14Actions(), c14Configs()
	type pair struct{ a, c int }
	var pairs []pair
	// every action x representative configurations, every configuration x representative actions
	repC := []int{0, 7, len(cfgs) / 3, len(cfgs) / 2, len(cfgs) - 2, len(cfgs) - 1}
	repA := []int{0, 1, 2, 5, len(acts) / 3, len(acts) / 2, len(acts) - 3, len(acts) - 1}
	for a := range acts {
		for _, c := range repC {
			pairs = append(pairs, pair{a, c})
		}
	}
	for c := range cfgs {
		for _, a := range repA {
			pairs = append(pairs, pair{a, c})
		}
	}
	if p.Tmux {
		// inside tmux: a fake tmux on PATH answers display-message; the bypass tty is a scratch file
		tty := scratchDir() + "/tmux-tty"
		os.WriteFile(tty, nil, 0o644)
		vdir := os.Getenv("VERIF_DIR")
		if vdir == "" {
			vdir = "/verif"
		}
		oldPath := os.Getenv("PATH")
		os.Setenv("PATH", vdir+"/harness/fakebin-tmux:"+oldPath)
		defer os.Setenv("PATH", oldPath)
		os.Setenv("TMUX", "/tmp/tmux-0/default,1,0")
		os.Setenv("VERIF_TMUX_TTY", tty)
		defer os.Unsetenv("TMUX")
		if len(pairs) > 400 {
			pairs = pairs[:400] // every pair costs three real fork+exec of the fake tmux
		}
	}
	deadline := time.Unix(j.Deadline, 0)
	s := vs.Run(vs.Config{NoRecord: true, MaxSteps: 1 << 40}, nil, nil, func() {
		for i, pr := range pairs {
			if i%p.NShards != p.Shard {
				continue
			}
			if j.Deadline > 0 && i%64 == 0 && time.Now().After(deadline) {
				r.Capped = "deadline"
				return
			}
			fa, fc, st, prob := c14Handshake(acts[pr.a], cfgs[pr.c])
			if p.Tmux && fc == "" && acts[pr.a].Confirm {
				// in tmux the relay answers the client through the tty, not through its stdout
				b, _ := os.ReadFile(os.Getenv("VERIF_TMUX_TTY"))
				for _, l := range decodeLines(b, "CFG") {
					fc = l
				}
				os.Truncate(os.Getenv("VERIF_TMUX_TTY"), 0)
			}
			v := c14CheckHandshake(acts[pr.a], cfgs[pr.c], fa, fc, st, prob, p.Tmux)
			r.Execs++
			r.Nontrivial++
			r.Outcomes[fmt.Sprintf("confirm=%v", acts[pr.a].Confirm)]++
			if len(r.Samples) < 2 {
				r.Samples = append(r.Samples, fmt.Sprintf("action %+v config %v -> ACT %s CFG %s", acts[pr.a], cfgs[pr.c], clipStr(fa, 120), clipStr(fc, 160)))
			}
			if v != "" {
				aj, _ := json.Marshal(acts[pr.a])
				cj, _ := json.Marshal(cfgs[pr.c])
				r.Violate("c14:handshake:"+firstWords(v, 8), fmt.Sprintf("action %s config %s tmux=%v: %s", aj, cj, p.Tmux, v), nil)
				if len(r.Violations) >= 4 {
					return
				}
			}
		}
	})
	r.Steps = int64(s.Steps)
	if len(s.Crash) > 0 {
		r.Violate("c14:crash", "panic in the relay: "+s.CrashString(), nil)
	}
	if s.Deadlock || s.Horizon {
		r.ToolErr = "handshake harness did not run to its end"
	}
	return r
}

// c14History: the world's result chain must show every transfer ending as intended, the relay back
// in standby each time (probe passes, next trigger is relayed with #R) and the final transfer succeeding.
func c14CheckHistory(w *world, first *worldResult) string {
	all := append([]*worldResult{first}, first.Next...)
	for i, r := range all {
		kind := r.Params.Kind
		if r.Params.Local != nil {
			kind = "srvfail"
		}
		if r.Params.Stop != nil && r.StopHit {
			kind = "ctrlc" // (a Ctrl-C that arrives after the transfer has ended stops nothing)
		}
		label := fmt.Sprintf("transfer %d (%s %s)", i, r.Params.Dir, kind)
		if r.Sched != nil && len(r.Sched.Crash) > 0 {
			return label + ": panic: " + r.Sched.CrashString()
		}
		if !r.SrvDone {
			return label + ": the server never returned"
		}
		if r.Transferring {
			return label + ": the client never left the transfer"
		}
		// a relay in standby marks the trigger it forwards; one still in transferring mode passes it through raw
		if r.Params.Relays > 0 {
			got := string(r.ClientGot)
			if i := strings.Index(got, "::TRZSZ:TRANSFER:"); i >= 0 {
				line := got[i:]
				if nl := strings.IndexAny(line, "\r\n"); nl >= 0 {
					line = line[:nl]
				}
				if !strings.Contains(line, "#R") {
					return fmt.Sprintf("%s: the trigger reached the client without the relay mark (%q): a relay was not back in standby after the previous transfer", label, line)
				}
			}
		}
		// narrowing holds for every transfer of the history: what the server receives as ACT never offers
		// binary without a tunnel, nor a protocol above the relay's
		if r.Params.Relays > 0 {
			if acts := decodeLinesRaw(r.C2S, "ACT"); len(acts) > 0 {
				var act transferAction
				if json.Unmarshal(acts[len(acts)-1], &act) == nil {
					if act.SupportBinary && !act.TunnelConnected {
						return label + ": the ACT that reached the server through the relay offers binary mode without a tunnel"
					}
					if act.Protocol > kProtocolVersion {
						return fmt.Sprintf("%s: the ACT that reached the server through the relay carries protocol %d", label, act.Protocol)
					}
				}
			}
		}
		said := serverSaid(r.SrvStdout)
		ok := r.SrvErr == "" && strings.HasPrefix(said, "Saved ") && strings.HasPrefix(r.ClientExit, "Saved ")
		switch kind {
		case "":
			if !ok {
				return fmt.Sprintf("%s through the relay(s) did not succeed although a direct one does: server err %q said %q, client exit %q fail %q", label, clipStr(r.SrvErr, 200), clipStr(said, 100), clipStr(r.ClientExit, 60), clipStr(r.ClientFail, 200))
			}
			if v := c01OracleFiles(w.withResult(r), r); v != "" {
				return label + ": " + v
			}
		case "refuse":
			if said != "Cancelled" {
				return fmt.Sprintf("%s: the server did not see the refusal (said %q, err %q)", label, clipStr(said, 100), clipStr(r.SrvErr, 200))
			}
		default:
			if ok {
				return label + ": was meant to fail but both sides report success"
			}
		}
		if r.ProbeOut != "ok" {
			return fmt.Sprintf("%s: afterwards the path is not transparent again: %s", label, r.ProbeOut)
		}
	}
	return ""
}

// withResult gives the oracle helpers a view of the world as it was for that transfer.
func (w *world) withResult(r *worldResult) *world {
	cp := *w
	cp.p = r.Params
	_, cp.entries, cp.tops = sharedTree(r.Params.Tree)
	cp.srcRoot, _, _ = sharedTree(r.Params.Tree)
	cp.pre = map[string]string{}
	return &cp
}

func c14Histories(tier string) []wParams {
	kinds := []wParams{
		{Dir: "up", Tree: "small3"},
		{Dir: "down", Tree: "small3"},
		{Dir: "down", Tree: "small3", Kind: "refuse"},
		{Dir: "down", Tree: "small3", Kind: "badpath"},
		{Dir: "up", Tree: "one:R:21000", Local: &wLocalFault{Side: "server", Hook: "fileWrite", K: 1, Kind: "err"}},
		{Dir: "up", Tree: "one:R:21000", Stop: &wStop{Side: "client", Step: 150}},
		{Dir: "down", Tree: "one:R:21000", Stop: &wStop{Side: "client", Delete: true, Step: 150}},
	}
	maxLen := 2
	if tier == "thorough" {
		maxLen = 3
	}
	var out []wParams
	var rec func(seq []wParams)
	rec = func(seq []wParams) {
		if len(seq) > 0 {
			for _, relays := range []int{1, 2} {
				for _, final := range []wParams{{Dir: "up", Tree: "small3"}, {Dir: "down", Tree: "dir", Directory: true}} {
					first := seq[0]
					first.Relays, first.Probe, first.Timeout = relays, true, 3
					first.Then = append(append([]wParams{}, seq[1:]...), final)
					out = append(out, first)
				}
			}
		}
		if len(seq) == maxLen {
			return
		}
		for _, k := range kinds {
			rec(append(append([]wParams{}, seq...), k))
		}
	}
	rec(nil)
	// the same relay carrying tunnelled and in-band transfers in turn (the server cannot always open its listener)
	tk := []wParams{
		{Dir: "up", Tree: "small3"}, {Dir: "down", Tree: "small3"},
		{Dir: "up", Tree: "small3", ServerNoListen: true}, {Dir: "down", Tree: "small3", ServerNoListen: true},
		{Dir: "up", Tree: "one:R:21000", Stop: &wStop{Side: "client", Step: 150}},
		// the server fails on its own (a write error): its failure line travels over the tunnel
		{Dir: "up", Tree: "one:R:21000", Local: &wLocalFault{Side: "server", Hook: "fileWrite", K: 1, Kind: "err"}},
		{Dir: "down", Tree: "small3", Kind: "badpath"},
	}
	for _, a := range tk {
		for _, b := range tk {
			for _, relays := range []int{1, 2} {
				for _, final := range []wParams{{Dir: "up", Tree: "small3", ServerNoListen: true}, {Dir: "down", Tree: "small3"}} {
					first := a
					first.Tunnel, first.Binary, first.Relays, first.Probe, first.Timeout = true, true, relays, true, 3
					first.Then = []wParams{b, final}
					out = append(out, first)
				}
			}
		}
	}
	return out
}

func c14Run(j vs.Job) *vs.JobResult {
	var p c14Params
	j.Decode(&p)
	if p.Mode == "handshake" {
		return c14RunHandshakes(j, p)
	}
	r := &vs.JobResult{Outcomes: map[string]int64{}}
	states := map[uint64]struct{}{}
	list := p.W
	if j.Replay != nil && j.Replay.Detail != nil {
		b, _ := json.Marshal(j.Replay.Detail)
		var wp wParams
		json.Unmarshal(b, &wp)
		list = []wParams{wp}
	}
	if p.Mode == "exitcut" && j.Replay == nil {
		// every single cut position of the last protocol message of a transfer, on the wire next to the client
		base := p.W[0]
		w0, res0 := runWorld(base, vs.Config{}, nil, nil, nil)
		if v := c14CheckHistory(w0, res0); v != "" {
			// the uncut history is itself one of the histories of part (ii)
			r.Violate("c14:exitcut-reference:"+firstWords(v, 10), base.String()+": "+v, base)
			return r
		}
		list = nil
		for _, d := range []struct {
			name string
			b    []byte
		}{{"c2s", w0.c2s[0].Written}, {"s2c", w0.s2c[0].Written}} {
			// the last '#'-line of the first transfer in this direction
			end := len(d.b)
			if len(res0.Next) > 0 {
				end = res0.Next[0].MarkC2S
				if d.name == "s2c" {
					end = res0.Next[0].MarkS2C0
				}
			}
			start := strings.LastIndex(string(d.b[:end]), "#")
			for off := start + 1; off < end && off < start+40; off++ {
				c := base
				c.Seg = fmt.Sprintf("cut:%s:%d", d.name, off)
				list = append(list, c)
			}
			// every set of two or more read boundaries inside the first 8 bytes (the marker the relay looks
			// for is 6 bytes long): the marker arrives in three or more reads, some shorter than what the relay keeps
			maxCuts := 2
			if j.Tier == "thorough" {
				maxCuts = 7
			}
			for mask := 1; mask < 1<<7; mask++ {
				var offs []string
				for b := 0; b < 7; b++ {
					if mask&(1<<b) != 0 && start+1+b < end {
						offs = append(offs, strconv.Itoa(start+1+b))
					}
				}
				if len(offs) < 2 || len(offs) > maxCuts {
					continue
				}
				c := base
				c.Seg = fmt.Sprintf("cut:%s:%s", d.name, strings.Join(offs, "+"))
				list = append(list, c)
			}
		}
	}
	for i, wp := range list {
		if p.NShards > 0 && i%p.NShards != p.Shard {
			continue
		}
		if j.Deadline > 0 && time.Now().Unix() > j.Deadline {
			r.Capped = "deadline"
			break
		}
		w, res := runWorld(wp, vs.Config{Trace: j.Replay != nil}, nil, nil, nil)
		r.Execs++
		r.Nontrivial++
		r.Steps += int64(res.Sched.Steps)
		for h := range res.Sched.Finger {
			states[h] = struct{}{}
		}
		v := c14CheckHistory(w, res)
		if len(res.Sched.Crash) > 0 {
			v = "panic: " + res.Sched.CrashString()
		} else if res.Sched.Horizon {
			v = "horizon reached"
		}
		r.Outcomes[fmt.Sprintf("len=%d ok=%v", 1+len(wp.Then), v == "")]++
		if len(r.Samples) < 2 {
			r.Samples = append(r.Samples, wp.String())
		}
		if j.Replay != nil {
			r.Notes = append(r.Notes, res.Sched.Trace...)
			for k, x := range append([]*worldResult{res}, res.Next...) {
				r.Notes = append(r.Notes, fmt.Sprintf("transfer %d: srvDone=%v srvErr=%q said=%q exit=%q cfail=%q probe=%q", k, x.SrvDone, clipStr(x.SrvErr, 200), serverSaid(x.SrvStdout), x.ClientExit, clipStr(x.ClientFail, 200), x.ProbeOut))
			}
		}
		if v != "" {
			r.Violate("c14:"+p.Mode+":"+firstWords(v, 10), wp.String()+": "+v, wp)
			if len(r.Violations) >= 4 {
				break
			}
		}
	}
	for h := range states {
		r.States = append(r.States, h)
	}
	return r
}

func init() {
	vs.Register(&vs.Check{
		ID:    "C14",
		Level: "exploration",
		Rule: "(i) all 1152 client actions (binary x directory x fork x protocol 1..9 x newline x tunnel x confirm) x 6 representative server configurations and all 3456 server configurations (every option subset x bufsize x timeout x pane width x compress x server inside tmux or not) x 8 representative actions through the real relay's handshake, outside tmux and (a subset) inside tmux; " +
			"(ii) every sequence of 1..2 (quick) / 1..3 (thorough) transfers over {upload, download, refused, failed on the client, failed on the server, Ctrl-C keep, Ctrl-C delete} through one and two relay instances, each followed by a transparency probe, then a transfer that must succeed; the same with tunnel connectors installed and every sequence of two transfers over {tunnelled up/down, in-band up/down (the server could not listen), Ctrl-C, failed on the server, failed on the client} before an in-band and a tunnelled final transfer; " +
			"(iii) every cut position inside the last protocol message of a transfer on the wire the relay reads, and every set of 2 (quick) / 2..7 (thorough) read boundaries inside its first 8 bytes",
		Assumptions: []string{"escape tables are not enumerated as server configuration: a relay never lets binary mode be negotiated without a tunnel, so no real server sends one through it",
			"CFG equality is judged on what the client decodes (transferConfig), not on the byte form", "'refused' uses a fake zenity on PATH that reports the dialog as cancelled"},
		QuickBudget: 110, ThoroughBudget: 1200, DiedIsViolation: true,
		Jobs: func(tier string) []vs.Job {
			var jobs []vs.Job
			for s := 0; s < 8; s++ {
				jobs = append(jobs, vs.MkJob(fmt.Sprintf("handshake %d/8", s), c14Params{Mode: "handshake", Shard: s, NShards: 8}))
			}
			jobs = append(jobs, vs.MkJob("handshake tmux", c14Params{Mode: "handshake", Shard: 0, NShards: 1, Tmux: true}))
			hs := c14Histories(tier)
			n := 16
			for s := 0; s < n; s++ {
				jobs = append(jobs, vs.MkJob(fmt.Sprintf("history %d/%d", s, n), c14Params{Mode: "history", Shard: s, NShards: n, W: hs}))
			}
			for _, base := range []wParams{
				{Dir: "up", Tree: "small3", Relays: 1, Probe: true, Timeout: 3, Then: []wParams{{Dir: "down", Tree: "small3"}}},
				{Dir: "down", Tree: "small3", Relays: 1, Probe: true, Timeout: 3, Then: []wParams{{Dir: "up", Tree: "small3"}}},
				{Dir: "down", Tree: "small3", Relays: 1, Probe: true, Timeout: 3, Kind: "badpath", Then: []wParams{{Dir: "up", Tree: "small3"}}},
				{Dir: "up", Tree: "one:R:21000", Relays: 1, Probe: true, Timeout: 3, Local: &wLocalFault{Side: "server", Hook: "fileWrite", K: 1, Kind: "err"}, Then: []wParams{{Dir: "up", Tree: "small3"}}},
			} {
				jobs = append(jobs, vs.MkJob("exitcut "+base.String(), c14Params{Mode: "exitcut", W: []wParams{base}}))
			}
			return jobs
		},
		Run: c14Run,
	})
}
