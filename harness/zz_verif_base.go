package trzsz

// Drivers of the model-checking harness (added to package trzsz through the build overlay;
// never part of the product). See /verif/DESIGN.md.

import (
	"os"
)

func init() {
	// the product execs `tmux` in a few places; none of the checks may reach the sandbox's own tmux
	os.Unsetenv("TMUX")
	os.Unsetenv("TMUX_PANE")
}
