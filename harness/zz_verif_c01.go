package trzsz

// C01 — end-to-end fidelity over a fault-free connection: configuration vector x source tree x
// transport segmentation, every one executed through the real filter / relay / server roles
// (DESIGN.md §3 C01).

import (
	"fmt"
	"os"
	"regexp"
	"sort"
	"strings"
	"time"

	vs "github.com/trzsz/trzsz-go/zzverif/vsched"
)

func prepopulate(dst string, recipe string, entries []treeEntry) {
	prepopulateImpl(dst, recipe, entries)
}

// savedNames parses a "Saved N file(s)/directories [to path]\r\n- name..." message.
func savedNames(msg string) ([]string, bool) {
	if !strings.HasPrefix(msg, "Saved ") {
		return nil, false
	}
	var names []string
	for _, l := range strings.Split(msg, "\r\n")[1:] {
		if strings.HasPrefix(l, "- ") {
			names = append(names, l[2:])
		}
	}
	return names, true
}

// serverSaid extracts the final message the server process printed (resetTerm).
func serverSaid(stdout string) string {
	s := stdout
	if i := strings.LastIndex(s, "\x1b7\r\n"); i >= 0 && strings.HasSuffix(s, "\r\n\x1b8") {
		// a message printed after the terminal had already been handed back (background mode)
		return strings.TrimSuffix(s[i+len("\x1b7\r\n"):], "\r\n\x1b8")
	}
	if i := strings.LastIndex(s, "\x1b8\x1b[0J"); i >= 0 {
		s = s[i+len("\x1b8\x1b[0J"):]
	}
	s = strings.TrimSuffix(s, "\x1b[?25h")
	return strings.TrimSuffix(s, "\r\n")
}

// c01Oracle: safety (if a side reports success the destination equals the source and the reported
// names are the names on disk) and liveness (fault-free world: both sides report success).
var scratchPathRe = regexp.MustCompile(`/dev/shm/[A-Za-z0-9_./-]*?/x[0-9]+/`)

// c01Oracle wraps c01Oracle0 and removes the per-execution scratch path from the message (so that
// the same violation reads the same on every replay).
func c01Oracle(w *world, r *worldResult, liveness bool) string {
	return scratchPathRe.ReplaceAllString(c01Oracle0(w, r, liveness), "<scratch>/")
}

func c01Oracle0(w *world, r *worldResult, liveness bool) string {
	s := r.Sched
	if len(s.Crash) > 0 {
		return "panic in a product goroutine (the process would have died): " + s.CrashString()
	}
	if s.Horizon {
		return fmt.Sprintf("horizon reached at virtual time %v / %d steps: the transfer does not terminate", r.End, s.Steps)
	}
	said := serverSaid(r.SrvStdout)
	srvOK := r.SrvDone && r.SrvErr == "" && strings.HasPrefix(said, "Saved ")
	cliOK := strings.HasPrefix(r.ClientExit, "Saved ")
	want := w.expectedDst(c01Renames(w))
	if w.p.DstPre == "" && (srvOK || cliOK) {
		if d := snapDiff(want, r.Dst); d != "" {
			return fmt.Sprintf("a side reported success (server=%v client=%v) but the destination differs from the source: %s", srvOK, cliOK, d)
		}
		// names shown to the user are the names written
		var tops []string
		for k := range r.Dst {
			if !strings.Contains(k, "/") {
				tops = append(tops, k)
			}
		}
		sort.Strings(tops)
		for _, msg := range []string{said, r.ClientExit} {
			if names, ok := savedNames(msg); ok {
				sort.Strings(names)
				if strings.Join(names, "|") != strings.Join(tops, "|") {
					return fmt.Sprintf("names shown to the user %q are not the names written %q", names, tops)
				}
			}
		}
	}
	if w.p.DstPre != "" && w.p.Overwrite && (srvOK || cliOK) {
		// -y onto existing files: every incoming path holds exactly the source's bytes afterwards (what else the
		// destination held is C08's business)
		for k, v := range want {
			if r.Dst[k] != v {
				return fmt.Sprintf("a side reported success (server=%v client=%v) for -y onto an existing destination (%s) but %s is %s, the source %s", srvOK, cliOK, w.p.DstPre, k, r.Dst[k], v)
			}
		}
	}
	if w.p.Overwrite && len(c01Renames(w)) > 0 {
		// duplicate names with -y are refused up front (checkDuplicateNames): both sides must say so and nothing is written
		if srvOK || cliOK {
			return "duplicate base names with -y were not refused"
		}
		if len(r.Dst) != 0 {
			return fmt.Sprintf("refused transfer left files behind: %v", r.Dst)
		}
		if !strings.Contains(r.SrvErr+said, "Duplicate name") {
			return fmt.Sprintf("refusal not reported: server err=%q said=%q", r.SrvErr, said)
		}
		return ""
	}
	if liveness {
		if !r.SrvDone {
			return "the server role never returned (fault-free connection)"
		}
		if !srvOK || !cliOK {
			return fmt.Sprintf("fault-free transfer did not succeed: server err=%q said=%q, client exit=%q fail=%q", r.SrvErr, clipStr(said, 200), clipStr(r.ClientExit, 100), clipStr(r.ClientFail, 200))
		}
		if r.Transferring {
			return "the client still reports a transfer in progress after both sides finished"
		}
	}
	return ""
}

// c01Renames: into an empty destination without -y, the k-th top-level path with an already used
// base name is stored as name.<k-1> (C07); with -y duplicate names are refused up front.
func c01Renames(w *world) map[string]string {
	used := map[string]int{}
	ren := map[string]string{}
	for _, top := range w.tops {
		base := top[strings.LastIndex(top, "/")+1:]
		if n := used[base]; n > 0 {
			ren[top] = fmt.Sprintf("%s.%d", base, n-1)
		}
		used[base]++
	}
	return ren
}

type c01Params struct {
	W []wParams `json:"w"`
	// Cuts: instead of running W as given, run W[0] once to learn the transcript and then once for
	// every single cut position of either direction (sharded).
	Cuts bool `json:"cuts,omitempty"`
	// Conform: the server-main replica against the real cmd/trz and cmd/tsz binaries (zz_verif_conform.go)
	Conform bool `json:"conform,omitempty"`
	// Slow: run W[0] once for every call k of the receiver's write seam, that one call taking 1 s
	// (a slow disk): "saved" must not be acknowledged before the bytes are written
	Slow    bool `json:"slow,omitempty"`
	Shard   int  `json:"shard,omitempty"`
	NShards int  `json:"nshards,omitempty"`
}

func c01Run(j vs.Job) *vs.JobResult {
	var p c01Params
	j.Decode(&p)
	r := &vs.JobResult{Outcomes: map[string]int64{}}
	states := map[uint64]struct{}{}
	if p.Conform {
		conformRun(r)
		return r
	}
	if p.Slow {
		base := p.W[0]
		side := "server"
		if base.Dir == "down" {
			side = "client"
		}
		hook := "fileWrite"
		if base.Directory && !base.Overwrite && (base.Protocol == 0 || base.Protocol >= 4) {
			hook = "archiveWrite"
		}
		p.W = nil
		for k := 1; k <= 4000; k++ {
			c := base
			c.Local = &wLocalFault{Side: side, Hook: hook, K: k, Kind: "slow"}
			w, res := runWorld(c, vs.Config{Trace: j.Replay != nil}, nil, nil, nil)
			if w.localN < k {
				break // the transfer makes fewer write calls than that
			}
			r.Execs++
			r.Nontrivial++
			r.Steps += int64(res.Sched.Steps)
			r.Outcomes[fmt.Sprintf("srvErr=%v exit=%v", res.SrvErr != "", strings.HasPrefix(res.ClientExit, "Saved"))]++
			if v := c01Oracle(w, res, true); v != "" {
				r.Violate("c01:slow:"+firstWords(v, 8), c.String()+": "+v, c)
				if len(r.Violations) > 3 {
					break
				}
			}
		}
		r.Samples = append(r.Samples, fmt.Sprintf("slow destination: %s with each of its %d write calls taking 1 s in turn", base.String(), r.Execs))
		return r
	}
	if p.Cuts {
		base := p.W[0]
		w0, res0 := runWorld(base, vs.Config{}, nil, nil, nil)
		if v := c01Oracle(w0, res0, true); v != "" {
			r.Violate("c01:"+base.String(), base.String()+": "+v, nil)
			return r
		}
		p.W = nil
		for _, d := range []struct {
			name string
			n    int
		}{{"c2s", len(w0.c2s[0].Written)}, {"s2c", len(w0.s2c[0].Written)}} {
			for off := 1; off < d.n; off++ {
				if stableShard(p.NShards, d.name, off) == p.Shard {
					c := base
					c.Seg = fmt.Sprintf("cut:%s:%d", d.name, off)
					p.W = append(p.W, c)
				}
			}
		}
	}
	for _, wp := range p.W {
		if j.Deadline > 0 && time.Now().Unix() > j.Deadline {
			r.Capped = "deadline"
			break
		}
		w, res := runWorld(wp, vs.Config{Trace: j.Replay != nil}, nil, nil, nil)
		r.Execs++
		r.Steps += int64(res.Sched.Steps)
		for h := range res.Sched.Finger {
			states[h] = struct{}{}
		}
		v := c01Oracle(w, res, true)
		r.Outcomes[fmt.Sprintf("srvErr=%v exit=%v", res.SrvErr != "", strings.HasPrefix(res.ClientExit, "Saved"))]++
		r.Nontrivial++
		r.Max("virtual_ms_max", float64(res.End.Milliseconds()))
		if len(r.Samples) < 2 {
			r.Samples = append(r.Samples, fmt.Sprintf("%s -> steps=%d virtual=%v files=%d", wp, res.Sched.Steps, res.End, len(res.Dst)))
		}
		if os.Getenv("VERIF_DEBUG") != "" && len(r.Notes) < 3 {
			r.Notes = append(r.Notes, fmt.Sprintf("alive at end: %v", res.Alive))
		}
		if j.Replay != nil {
			r.Notes = append(r.Notes, res.Sched.Trace...)
			r.Notes = append(r.Notes, fmt.Sprintf("srvErr=%q stdout=%q clientExit=%q clientFail=%q serverFail=%q end=%v dst=%v", res.SrvErr, res.SrvStdout, res.ClientExit, res.ClientFail, res.ServerFail, res.End, res.Dst))
		}
		if v != "" {
			r.Violate("c01:"+wp.String(), wp.String()+": "+v, nil)
		}
		if res.Sched.Leaked > 0 {
			r.ToolErr = "threads leaked at teardown"
		}
	}
	for h := range states {
		r.States = append(r.States, h)
	}
	return r
}

// c01Dims lists, per dimension, the alternative values (index 0 is the default).
type c01Dim struct {
	name string
	n    int
	set  func(p *wParams, i int)
}

var c01Dims = []c01Dim{
	{"dir", 2, func(p *wParams, i int) { p.Dir = []string{"up", "down"}[i] }},
	{"binary", 2, func(p *wParams, i int) { p.Binary = i == 1 }},
	{"escape", 2, func(p *wParams, i int) { p.EscapeAll = i == 1 }},
	{"compress", 3, func(p *wParams, i int) { p.Compress = i }},
	{"protocol", 4, func(p *wParams, i int) { p.Protocol = []int{0, 3, 2, 1}[i] }},
	{"bufsize", 3, func(p *wParams, i int) { p.Bufsize = []int64{0, 4096, 1024}[i] }},
	{"overwrite", 2, func(p *wParams, i int) { p.Overwrite = i == 1 }},
	{"directory", 2, func(p *wParams, i int) { p.Directory = i == 1 }},
	{"winnl", 3, func(p *wParams, i int) { p.WinNL = []string{"", "client", "server"}[i] }},
	{"relays", 3, func(p *wParams, i int) { p.Relays = i }},
	{"tunnel", 2, func(p *wParams, i int) { p.Tunnel = i == 1 }},
	{"fork", 2, func(p *wParams, i int) { p.Fork = i == 1 }},
	{"quiet", 2, func(p *wParams, i int) { p.Quiet = i == 1 }},
	{"latency", 3, func(p *wParams, i int) { p.LatencyMs = []int{0, 300, 2500}[i] }},
}

// c01Vectors enumerates all configuration vectors within Hamming distance maxDist of the default
// (maxDist < 0: the full product).
func c01Vectors(maxDist int) []wParams {
	var out []wParams
	idx := make([]int, len(c01Dims))
	var rec func(d, dist int)
	rec = func(d, dist int) {
		if d == len(c01Dims) {
			var p wParams
			for k, dim := range c01Dims {
				dim.set(&p, idx[k])
			}
			out = append(out, p)
			return
		}
		for i := 0; i < c01Dims[d].n; i++ {
			nd := dist
			if i != 0 {
				nd++
			}
			if maxDist >= 0 && nd > maxDist {
				continue
			}
			idx[d] = i
			rec(d+1, nd)
		}
		idx[d] = 0
	}
	rec(0, 0)
	return out
}

// c01Valid drops vectors that the product itself collapses onto another vector.
func c01Valid(p wParams) bool {
	if p.Fork && !p.Tunnel {
		return false // background mode needs the tunnel (refusal without one is a separate expectation)
	}
	if p.EscapeAll && !(p.Binary && p.Dir == "up") {
		return false // -e only changes the table a receiving server announces for binary uploads
	}
	if p.Binary && (p.Relays > 0 || p.WinNL != "") && !p.Tunnel {
		return p.Compress == 0 && !p.EscapeAll // -b is dropped: keep one representative
	}
	return true
}

func c01Configs(tier string) []wParams {
	var out []wParams
	dist := 2
	trees := []string{"small3", "dir", "dirsame", "one:R:131073"}
	segs := []string{"", "coalesce"}
	if tier == "thorough" {
		dist = 3
		trees = []string{"small3", "unicode", "dir", "dir2", "dirsame", "samebase", "one:R:131073", "one:T:10241", "one:E:3079", "one:T:0", "many:40"}
		segs = []string{"", "coalesce", "byte"}
	}
	for _, v := range c01Vectors(dist) {
		if !c01Valid(v) {
			continue
		}
		for _, t := range trees {
			for _, sg := range segs {
				p := v
				p.Tree, p.Seg = t, sg
				isDirTree := strings.HasPrefix(t, "dir")
				if isDirTree != p.Directory && isDirTree {
					continue // a directory needs -d (refusal is checked separately)
				}
				if sg == "byte" && (strings.HasPrefix(t, "one:R") || p.LatencyMs > 0) {
					continue
				}
				out = append(out, p)
			}
		}
	}
	return out
}

func init() {
	vs.Register(&vs.Check{
		ID:    "C01",
		Level: "exploration",
		Rule:  "configuration vector x source tree x segmentation policy, each executed end to end (real filter, relays, server role) in virtual time; distinct by construction; overwrite also onto destinations that already hold the names (resumed after a proven prefix, different, identical, longer) x base64/binary x compress auto/yes/no; every single cut of the transcript on a core of configurations; 300 files under a descriptor limit of 100; 9 configurations with each write call of the receiver in turn taking 1 s (slow disk)",
		Assumptions: []string{
			"the server main is a replica of the tail of TrzMain/TszMain running the real recvFiles/sendFiles",
		},
		TraceNote:   "the world's server role is a replica of the tail of TrzMain/TszMain; the number counts configurations whose message-type transcript, resulting files and final message were compared with the real cmd/trz and cmd/tsz binaries (built from the current tree, run as child processes in real time)",
		QuickBudget: 100, ThoroughBudget: 1200,
		DiedIsViolation: true,
		Jobs: func(tier string) []vs.Job {
			var jobs []vs.Job
			cfgs := c01Configs(tier)
			const batch = 64
			for i := 0; i < len(cfgs); i += batch {
				e := i + batch
				if e > len(cfgs) {
					e = len(cfgs)
				}
				jobs = append(jobs, vs.MkJob(fmt.Sprintf("batch %d-%d", i, e), c01Params{W: cfgs[i:e]}))
			}
			// overwrite on, onto a destination that already holds the names: part of the file proven equal and
			// resumed (three 64 KiB blocks agree, ~200 KB still to send, enough for the compression probe), different
			// from the first block, identical, and longer
			var ow []wParams
			for _, dir := range []string{"up", "down"} {
				for _, bin := range []bool{false, true} {
					for _, comp := range []int{0, 1, 2} {
						for _, tree := range []string{"one:R:400000", "one:T:400000"} {
							if tier != "thorough" && (bin != (comp == 1)) && comp != 0 {
								continue
							}
							ow = append(ow, wParams{Dir: dir, Binary: bin, Compress: comp, Tree: tree, Overwrite: true, DstPre: "c08:shorter:200000@-1", HashStep: 65536})
						}
					}
					ow = append(ow, wParams{Dir: dir, Binary: bin, Tree: "one:T:400000", Overwrite: true, DstPre: "c08:shorter:200000@70000", HashStep: 65536},
						wParams{Dir: dir, Binary: bin, Tree: "small3", Overwrite: true, DstPre: "c08:longer:9@5"},
						wParams{Dir: dir, Binary: bin, Tree: "small3", Overwrite: true, DstPre: "c08:same@-1"},
						wParams{Dir: dir, Binary: bin, Tree: "small3", Overwrite: true, DstPre: "c08:longer:9@-1"},   // the old file begins with the whole new one
						wParams{Dir: dir, Binary: bin, Tree: "one:T:0", Overwrite: true, DstPre: "c08:longer:30@-1"}, // an empty file over a non-empty one
						wParams{Dir: dir, Binary: bin, Tree: "dir", Directory: true, Overwrite: true, DstPre: "c08:shorter:3@-1"})
				}
			}
			jobs = append(jobs, vs.MkJob("overwrite onto existing files", c01Params{W: ow}))
			// every single cut of the whole transcript, both directions, on a core of configurations
			core := []wParams{
				{Dir: "up", Tree: "small3"},
				{Dir: "down", Tree: "small3", Relays: 1},
			}
			if tier == "thorough" {
				core = append(core,
					wParams{Dir: "up", Tree: "dir", Directory: true, Relays: 1},
					wParams{Dir: "down", Tree: "dir", Directory: true, Protocol: 3},
					wParams{Dir: "up", Tree: "small3", Binary: true, EscapeAll: true},
					wParams{Dir: "down", Tree: "small3", Binary: true},
					wParams{Dir: "up", Tree: "small3", WinNL: "server"},
					wParams{Dir: "down", Tree: "small3", WinNL: "client", Protocol: 2},
				)
			}
			// more files (and more archive entries) than the process may hold open at once
			for _, dir := range []string{"up", "down"} {
				fd := []wParams{
					{Dir: dir, Tree: "many:300", FdLimit: 100},
					{Dir: dir, Tree: "manydir:300", Directory: true, FdLimit: 100},
					{Dir: dir, Tree: "manydir:300", Directory: true, Overwrite: true, FdLimit: 100},
				}
				if tier == "thorough" {
					fd = append(fd, wParams{Dir: dir, Tree: "many:300", FdLimit: 100, Protocol: 2}, wParams{Dir: dir, Tree: "many:300", FdLimit: 100, Protocol: 1},
						wParams{Dir: dir, Tree: "many:300", FdLimit: 100, Relays: 1}, wParams{Dir: dir, Tree: "manydir:300", Directory: true, Protocol: 3, FdLimit: 100})
				}
				for _, c := range fd {
					jobs = append(jobs, vs.MkJob("fd "+c.String(), c01Params{W: []wParams{c}}))
				}
			}
			for _, c := range core {
				for sh := 0; sh < 8; sh++ {
					jobs = append(jobs, vs.MkJob(fmt.Sprintf("cuts %s %d/8", c.String(), sh), c01Params{W: []wParams{c}, Cuts: true, Shard: sh, NShards: 8}))
				}
			}
			// a slow destination: each write call of the receiver in turn takes a second
			for _, c := range []wParams{
				{Dir: "up", Tree: "small3"}, {Dir: "down", Tree: "small3"},
				{Dir: "up", Tree: "one:R:21000"}, {Dir: "down", Tree: "one:R:21000", Binary: true},
				{Dir: "up", Tree: "dir", Directory: true}, {Dir: "down", Tree: "dir", Directory: true},
				{Dir: "up", Tree: "dir", Directory: true, Overwrite: true}, {Dir: "down", Tree: "small3", Protocol: 2},
				{Dir: "up", Tree: "one:T:10241", Protocol: 1},
			} {
				jobs = append(jobs, vs.MkJob("slow destination "+c.String(), c01Params{W: []wParams{c}, Slow: true}))
			}
			jobs = append(jobs, vs.MkJob("conformance with the real trz/tsz binaries", c01Params{Conform: true}))
			return jobs
		},
		Run: c01Run,
	})
}
