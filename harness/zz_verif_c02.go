package trzsz

// C02 — no silent corruption: a damaged stream is never reported as saved (DESIGN.md §3 C02).
// Every single byte-level fault (7 kinds) at every offset of the protocol's control bytes and at a
// stated deterministic family of payload offsets, in either direction, plus pairs of faults in the
// thorough tier; each a full transfer through the real code in virtual time.

import (
	"bytes"
	"encoding/json"
	"fmt"
	"hash/fnv"
	"os"
	"strconv"
	"strings"
	"time"

	vs "github.com/trzsz/trzsz-go/zzverif/vsched"
)

var faultKinds = []string{"flip0", "flip5", "del", "dup", "insnl", "insA", "trunc"}

// stableShard assigns a case to a shard by what the case IS (direction, offset, kind), not by its position in
// this job's own enumeration: every shard job records its own reference transcript, and those differ by a few
// bytes (the scratch path in the final message), so a running index is not the same partition in every shard.
func stableShard(n int, parts ...any) int {
	if n <= 1 {
		return 0
	}
	h := fnv.New32a()
	fmt.Fprint(h, parts...)
	return int(h.Sum32() % uint32(n))
}

type c02Params struct {
	W       wParams `json:"w"`
	Step    int64   `json:"step,omitempty"` // comparison block override (resumed-file configuration)
	Shard   int     `json:"shard"`
	NShards int     `json:"nshards"`
	Pairs   bool    `json:"pairs,omitempty"`
	// LinesOnly: only the whole-line faults (every protocol line repeated / lost); directory transfers in the quick tier
	LinesOnly bool `json:"lines_only,omitempty"`
	// Fields: message-level faults only — every protocol line's encoded payload cut to a well-formed encoding of
	// nothing / of its first half; and each such cut of a digest line (#MD5) together with each byte flip of the site family
	Fields bool `json:"fields,omitempty"`
}

// transcriptOf returns the unfaulted byte streams of the transfer (in-band wire or tunnel connection).
func transcriptOf(w *world, res *worldResult) (c2s, s2c []byte) {
	if w.p.Tunnel {
		return res.TunC2S, res.TunS2C
	}
	return w.c2s[0].Written, w.s2c[0].Written
}

// faultOffsets: every offset outside DATA payloads; inside a payload the first and last 24 bytes and
// every 61st byte (a fixed family, not a sample: the same offsets on every run).
func faultOffsets(stream []byte, binary bool) (offs []int, fieldStarts []int) {
	i := 0
	for i < len(stream) {
		nl := bytes.IndexByte(stream[i:], '\n')
		end := len(stream)
		if nl >= 0 {
			end = i + nl + 1
		}
		line := stream[i:end]
		fieldStarts = append(fieldStarts, i)
		if bytes.HasPrefix(line, []byte("#DATA:")) {
			payStart, payEnd := i+6, end-1
			if binary {
				if n, err := strconv.Atoi(strings.TrimRight(string(line[6:]), "!\r\n")); err == nil {
					for k := i; k < end; k++ {
						offs = append(offs, k)
					}
					payStart, payEnd = end, end+n
					if payEnd > len(stream) {
						payEnd = len(stream)
					}
					end = payEnd
				}
			} else {
				for k := i; k < payStart; k++ {
					offs = append(offs, k)
				}
			}
			for k := payStart; k < payEnd; k++ {
				if k-payStart < 24 || payEnd-k <= 24 || (k-payStart)%61 == 0 {
					offs = append(offs, k)
				}
			}
			if !binary {
				for k := payEnd; k < end; k++ {
					offs = append(offs, k)
				}
			}
		} else {
			for k := i; k < end; k++ {
				offs = append(offs, k)
			}
		}
		i = end
	}
	return
}

// c02Oracle: every name a side lists in its "Saved ..." report must exist at the destination with
// exactly the content of the corresponding source entry (a report that lists nothing claims nothing).
func c02Oracle(w *world, r *worldResult) (violation, outcome string) {
	said := serverSaid(r.SrvStdout)
	srvOK := r.SrvDone && r.SrvErr == "" && strings.HasPrefix(said, "Saved ")
	cliOK := strings.HasPrefix(r.ClientExit, "Saved ")
	switch {
	case len(r.Sched.Crash) > 0:
		outcome = "crash"
	case r.Sched.Horizon || !r.SrvDone:
		outcome = "hang"
	case srvOK && cliOK:
		outcome = "both-success"
	case srvOK || cliOK:
		outcome = "one-success"
	default:
		outcome = "error"
	}
	src := snapshot(w.srcRoot)
	srcHashes := map[string]bool{}
	for _, v := range src {
		if strings.HasPrefix(v, "file:") {
			srcHashes[v] = true
		}
	}
	check := func(who, msg string) string {
		names, ok := savedNames(msg)
		if !ok {
			return ""
		}
		for _, n := range names {
			if _, ok := r.Dst[n]; !ok {
				// The sending side knows the destination name only from the receiver's reply, which no checksum covers
				// (message-level faults cut it to a shorter well-formed name). The statement is about content: when what
				// is at the destination is, file for file, the content of the source, a misreported name is not a C02 violation.
				if senderSide := (who == "the client") == (w.p.Dir == "up"); senderSide && sameFileContents(src, r.Dst) {
					continue
				}
				return fmt.Sprintf("%s reports %q as saved but it is not at the destination (%v)", who, n, keysOf(r.Dst))
			}
			// the source entry this name stands for: same base name, possibly with a .N suffix
			var top string
			for _, t := range w.tops {
				base := t[strings.LastIndex(t, "/")+1:]
				if n == base || (strings.HasPrefix(n, base+".") && !w.p.Overwrite) {
					top = t
				}
			}
			for k, v := range r.Dst {
				if k != n && !strings.HasPrefix(k, n+"/") {
					continue
				}
				if top != "" && len(w.tops) == 1 || top != "" && w.p.Tree != "samebase" {
					if sv, ok := src[top+k[len(n):]]; !ok || sv != v {
						return fmt.Sprintf("%s reports %q as saved but %s is %s, the source has %s", who, n, k, v, sv)
					}
				} else if strings.HasPrefix(v, "file:") && !srcHashes[v] {
					return fmt.Sprintf("%s reports %q as saved but %s (%s) has the content of no source file", who, n, k, v)
				}
			}
			// nothing of the source entry may be missing below a name reported as saved
			if top != "" && w.p.Tree != "samebase" {
				for k, v := range src {
					if k == top || strings.HasPrefix(k, top+"/") {
						if r.Dst[n+k[len(top):]] != v {
							return fmt.Sprintf("%s reports %q as saved but %s of the source is missing or different below it", who, n, k)
						}
					}
				}
			}
		}
		return ""
	}
	if srvOK {
		if v := check("the server", said); v != "" {
			return v, outcome
		}
	}
	if cliOK {
		if v := check("the client", r.ClientExit); v != "" {
			return v, outcome
		}
	}
	return "", outcome
}

// sameFileContents: the two trees hold the same multiset of file contents (names and directories aside).
func sameFileContents(a, b map[string]string) bool {
	cnt := map[string]int{}
	for _, v := range a {
		if strings.HasPrefix(v, "file:") {
			cnt[v]++
		}
	}
	for _, v := range b {
		if strings.HasPrefix(v, "file:") {
			cnt[v]--
		}
	}
	for _, c := range cnt {
		if c != 0 {
			return false
		}
	}
	return true
}

func c02Run(j vs.Job) *vs.JobResult {
	var p c02Params
	j.Decode(&p)
	r := &vs.JobResult{Outcomes: map[string]int64{}}
	states := map[uint64]struct{}{}
	if p.Step > 0 {
		saved := kPrefixHashStep
		kPrefixHashStep = p.Step
		defer func() { kPrefixHashStep = saved }()
	}
	if j.Replay != nil && j.Replay.Detail != nil {
		b, _ := json.Marshal(j.Replay.Detail)
		json.Unmarshal(b, &p.W)
	}
	if j.Replay != nil && len(p.W.Faults) > 0 {
		w, res := runWorld(p.W, vs.Config{Trace: true}, nil, nil, nil)
		v, o := c02Oracle(w, res)
		r.Notes = append(r.Notes, fmt.Sprintf("outcome=%s srvErr=%q said=%q exit=%q fail=%q dst=%v", o, res.SrvErr, serverSaid(res.SrvStdout), res.ClientExit, res.ClientFail, res.Dst))
		if os.Getenv("VERIF_WIRE") != "" {
			for i := range w.c2s {
				r.Notes = append(r.Notes, fmt.Sprintf("c2s[%d] written: %q", i, w.c2s[i].Written), fmt.Sprintf("s2c[%d] written: %q", i, w.s2c[i].Written))
			}
		}
		if v != "" {
			r.Violate("c02:"+p.W.String(), v, nil)
		}
		return r
	}
	w0, res0 := runWorld(p.W, vs.Config{}, nil, nil, nil)
	if v := c01Oracle(w0, res0, true); v != "" && p.W.DstPre == "" {
		r.ToolErr = "the unfaulted reference run is not clean: " + v
		return r
	}
	c2s, s2c := transcriptOf(w0, res0)
	type site struct {
		dir string
		off int
	}
	var sites []site
	var fields []site
	for _, d := range []struct {
		name string
		b    []byte
	}{{"c2s", c2s}, {"s2c", s2c}} {
		offs, fs := faultOffsets(d.b, p.W.Binary)
		for _, o := range offs {
			sites = append(sites, site{d.name, o})
		}
		for _, f := range fs {
			fields = append(fields, site{d.name, f})
		}
	}
	r.Max("transcript_bytes", float64(len(c2s)+len(s2c)))
	r.Max("fault_sites", float64(len(sites)))
	nOne := 0
	run := func(faults []wFault) bool {
		wp := p.W
		wp.Faults = faults
		w, res := runWorld(wp, vs.Config{}, nil, nil, nil)
		r.Execs++
		r.Steps += int64(res.Sched.Steps)
		for h := range res.Sched.Finger {
			states[h] = struct{}{}
		}
		v, o := c02Oracle(w, res)
		r.Outcomes[o]++
		if o != "both-success" {
			r.Nontrivial++
		}
		if len(r.Samples) < 3 && o == "error" {
			r.Samples = append(r.Samples, fmt.Sprintf("%s faults=%v -> %s (server: %q)", p.W, faults, o, clipStr(res.SrvErr, 80)))
		}
		if os.Getenv("VERIF_WIRE") != "" {
			r.Notes = append(r.Notes, fmt.Sprintf("%v -> %s server said %q client exit %q fail %q dst %v", faults, o, clipStr(serverSaid(res.SrvStdout), 60), clipStr(res.ClientExit, 60), clipStr(res.ClientFail, 60), len(res.Dst)))
		}
		if o == "one-success" && nOne < 3 {
			nOne++
			r.Samples = append(r.Samples, fmt.Sprintf("%s faults=%v -> one side reports success, judged by the oracle: server said %q, client exit %q, client fail %q", p.W, faults, clipStr(serverSaid(res.SrvStdout), 80), clipStr(res.ClientExit, 80), clipStr(res.ClientFail, 80)))
		}
		if v != "" {
			r.Violate("c02:"+wp.String(), wp.String()+": "+v, wp)
			return len(r.Violations) < 3
		}
		return true
	}
	deadline := time.Unix(j.Deadline, 0)
	if p.Fields {
		streams := map[string][]byte{"c2s": c2s, "s2c": s2c}
		nCut, nCutPairs := 0, 0
	fields:
		for _, f := range fields {
			for _, kind := range []string{"cut0", "cuthalf"} {
				if stableShard(p.NShards, f.dir, f.off, kind) == p.Shard {
					nCut++
					if !run([]wFault{{f.dir, f.off, kind}}) {
						return r
					}
				}
				if !bytes.HasPrefix(streams[f.dir][f.off:], []byte("#MD5:")) {
					continue
				}
				for _, s := range sites {
					if s.dir == f.dir && s.off >= f.off {
						continue // the flip is a fault of the data that the digest line covers, i.e. before it
					}
					if stableShard(p.NShards, f.dir, f.off, kind, s.dir, s.off) == p.Shard {
						nCutPairs++
						if !run([]wFault{{s.dir, s.off, "flip0"}, {f.dir, f.off, kind}}) {
							return r
						}
					}
				}
				if j.Deadline > 0 && time.Now().After(deadline) {
					r.Capped = "deadline"
					break fields
				}
			}
		}
		r.Max("field_cuts_max_per_shard", float64(nCut))
		r.Max("digest_cut_x_flip_pairs_max_per_shard", float64(nCutPairs))
	} else if !p.Pairs {
		for _, s := range sites {
			if p.LinesOnly {
				break
			}
			for _, kind := range faultKinds {
				if stableShard(p.NShards, s.dir, s.off, kind) == p.Shard {
					if !run([]wFault{{s.dir, s.off, kind}}) {
						return r
					}
				}
			}
			if j.Deadline > 0 && time.Now().After(deadline) {
				r.Capped = "deadline"
				break
			}
		}
		// multi-byte faults: every protocol line of either direction repeated, and lost, as a whole
		for _, f := range fields {
			for _, kind := range []string{"dupline", "delline"} {
				if stableShard(p.NShards, f.dir, f.off, kind) == p.Shard {
					if !run([]wFault{{f.dir, f.off, kind}}) {
						return r
					}
				}
			}
		}
	} else {
		// pairs: each fault at the first byte of a protocol line (every line of either direction)
	outer:
		for a := 0; a < len(fields); a++ {
			for b := a + 1; b < len(fields); b++ {
				for _, ka := range []string{"flip0", "del", "insA"} {
					for _, kb := range []string{"flip5", "dup", "insnl"} {
						if stableShard(p.NShards, fields[a].dir, fields[a].off, ka, fields[b].dir, fields[b].off, kb) == p.Shard {
							if !run([]wFault{{fields[a].dir, fields[a].off + 1, ka}, {fields[b].dir, fields[b].off + 1, kb}}) {
								return r
							}
						}
					}
				}
			}
			if j.Deadline > 0 && time.Now().After(deadline) {
				r.Capped = "deadline"
				break outer
			}
		}
	}
	for h := range states {
		r.States = append(r.States, h)
	}
	return r
}

func init() {
	vs.Register(&vs.Check{
		ID:    "C02",
		Level: "fault_enumeration",
		Rule: "single faults {flip bit 0, flip bit 5, delete, duplicate, insert LF, insert 'A', truncate from here} at every offset of either direction outside DATA payloads and, inside payloads, at the first/last 24 bytes and every 61st byte; " +
			"every protocol line repeated and lost as a whole; every protocol line's encoded payload cut to a well-formed encoding of nothing / of its first half, and every such cut of a digest line together with every flip of the site family before it (5 configurations, 3 of them binary and uncompressed); thorough adds pairs of faults on the second byte of every pair of protocol lines; per configuration; non-trivial = the faulted run did not simply succeed on both sides",
		Assumptions: []string{"same trusted base as C01", "a hang or a crash caused by a fault is counted in the outcomes here and decided by C11 / C12", "content saved under another name is not a C02 violation (the statement is about content)"},
		QuickBudget: 110, ThoroughBudget: 1200, DiedIsViolation: false,
		Jobs: func(tier string) []vs.Job {
			cfgs := []c02Params{
				{W: wParams{Dir: "up", Tree: "one:R:21000", Timeout: 3}},
				{W: wParams{Dir: "down", Tree: "small3", Compress: 2, Timeout: 3}},
				{W: wParams{Dir: "up", Tree: "one:E:3000", Protocol: 2, Timeout: 3}},
				{W: wParams{Dir: "down", Tree: "one:R:21000", Binary: true, Tunnel: true, Timeout: 3}},
				// the hash exchange of a resumed transfer (64-byte blocks): a shorter equal prefix; equal blocks, then a different one
				{W: wParams{Dir: "up", Tree: "one:E:200", Overwrite: true, DstPre: "c08:shorter:40@-1", Timeout: 3}, Step: 64},
				{W: wParams{Dir: "down", Tree: "one:E:200", Overwrite: true, Protocol: 3, DstPre: "c08:same@130", Timeout: 3}, Step: 64},
			}
			if tier == "thorough" {
				cfgs = append(cfgs,
					c02Params{W: wParams{Dir: "down", Tree: "one:E:3000", Protocol: 1, Timeout: 3}},
					c02Params{W: wParams{Dir: "up", Tree: "dir", Directory: true, Timeout: 3}},
					c02Params{W: wParams{Dir: "down", Tree: "dir", Directory: true, Protocol: 3, Timeout: 3}},
					c02Params{W: wParams{Dir: "up", Tree: "one:E:3000", Binary: true, EscapeAll: true, Timeout: 3}},
					c02Params{W: wParams{Dir: "up", Tree: "small3", Relays: 1, Timeout: 3}},
					c02Params{W: wParams{Dir: "down", Tree: "small3", WinNL: "client", Timeout: 3}},
				)
			}
			var jobs []vs.Job
			for _, c := range cfgs {
				n := 16
				for s := 0; s < n; s++ {
					c.Shard, c.NShards = s, n
					jobs = append(jobs, vs.MkJob(fmt.Sprintf("single %s %d/%d", c.W.String(), s, n), c))
				}
			}
			// directory transfers (entries that are complete in one NAME line), whole-line faults only
			for _, w := range []wParams{
				{Dir: "down", Tree: "dir", Directory: true, Protocol: 3, Timeout: 3},
				{Dir: "up", Tree: "dir", Directory: true, Timeout: 3},
				{Dir: "down", Tree: "dir", Directory: true, Protocol: 2, Timeout: 3},
				{Dir: "up", Tree: "dir", Directory: true, Protocol: 3, Timeout: 3},
			} {
				jobs = append(jobs, vs.MkJob("lines "+w.String(), c02Params{W: w, LinesOnly: true, NShards: 1}))
			}
			// message-level faults (payload cut to a well-formed shorter one), and digest cuts paired with data flips
			var fieldCfgs []c02Params
			for _, c := range []c02Params{
				// binary and uncompressed: a flipped payload byte is a different, still decodable, content byte
				{W: wParams{Dir: "down", Tree: "one:R:21000", Binary: true, Tunnel: true, Compress: 2, Timeout: 3}},
				{W: wParams{Dir: "up", Tree: "one:E:3000", Binary: true, Compress: 2, Timeout: 3}},
				{W: wParams{Dir: "up", Tree: "one:E:3000", Binary: true, Compress: 2, Protocol: 2, Timeout: 3}},
				{W: wParams{Dir: "up", Tree: "small3", Timeout: 3}},
				{W: wParams{Dir: "down", Tree: "one:E:3000", Protocol: 2, Timeout: 3}},
			} {
				fieldCfgs = append(fieldCfgs, c)
			}
			if tier == "thorough" {
				// and every configuration of the byte-level enumeration (resumed, directory, relay, Windows framing ...)
				fieldCfgs = append(fieldCfgs, cfgs...)
			}
			for _, c := range fieldCfgs {
				c.Fields = true
				n := 4
				for s := 0; s < n; s++ {
					c.Shard, c.NShards = s, n
					jobs = append(jobs, vs.MkJob(fmt.Sprintf("fields %s %d/%d", c.W.String(), s, n), c))
				}
			}
			if tier == "thorough" {
				for _, c := range cfgs[:3] {
					c.Pairs = true
					n := 16
					for s := 0; s < n; s++ {
						c.Shard, c.NShards = s, n
						jobs = append(jobs, vs.MkJob(fmt.Sprintf("pairs %s %d/%d", c.W.String(), s, n), c))
					}
				}
			}
			return jobs
		},
		Run: c02Run,
	})
}
