package trzsz

// C17 — only the authenticated tunnel connection is ever used, and only one (DESIGN.md §3 C17).
// (a) focused harness: the real acceptOnTunnel / connectToTunnel over the fake network with 1..3
// other connection attempts, all schedules up to a preemption bound; (b) world runs: in-band bytes
// after both ends agreed on the tunnel, connector refusing / late / dead, strangers dialling the
// server's port during a real transfer.

import (
	"bytes"
	"encoding/json"
	"fmt"
	"net"
	"sort"
	"strings"
	"time"

	vs "github.com/trzsz/trzsz-go/zzverif/vsched"
	vtime "github.com/trzsz/trzsz-go/zzverif/vsched/vtime"
)

type c17Params struct {
	Mode      string   `json:"mode"`      // "adopt" | "world"
	Attackers []string `json:"attackers"` // behaviours of the other connection attempts
	Connector string   `json:"connector"` // genuine client's connector: ok | nil | late | dead | none (no genuine client)
	Bound     int      `json:"bound"`
	Free      bool     `json:"free"` // context switches at blocking points are free (CHESS-style preemption bounding)
	Shard     int      `json:"shard"`
	NShards   int      `json:"nshards"`
	W         *wParams `json:"w,omitempty"`
	Junk      bool     `json:"junk,omitempty"`
	RelayHang bool     `json:"relay_hang,omitempty"` // the relay's own connector towards the server hangs: the client must fall back in-band after its grace period
	JunkEarly bool     `json:"junk_early,omitempty"` // the in-band bytes arrive right after the ACT went out over the tunnel, before the CFG
}

const c17ID = "1234567890100"

type c17Obs struct {
	srvData, cliData [][]byte // what reached addReceivedData (tunnel=true) on each side
	srvInband        [][]byte
}

// c17Adopt runs one execution of the focused harness.
func c17Adopt(p c17Params) vs.ExecFn {
	return func(prefix, prefixN []int, trace bool) *vs.ExecResult {
		var obs c17Obs
		var srvT, cliT *trzszTransfer
		var port int
		var atkConns []*vs.Conn
		outcome, violation := "", ""
		vs.ObsFn = func(name string, args ...any) {
			if name != "addReceivedData" {
				return
			}
			b := append([]byte(nil), args[0].([]byte)...)
			tunnel := args[1].(bool)
			if vs.Flag("client") {
				if tunnel {
					obs.cliData = append(obs.cliData, b)
				}
			} else if tunnel {
				obs.srvData = append(obs.srvData, b)
			} else {
				obs.srvInband = append(obs.srvInband, b)
			}
		}
		defer func() { vs.ObsFn = nil }()
		s := vs.Run(vs.Config{MaxSteps: 50000, Trace: trace, ClockChoice: true}, prefix, prefixN, func() {
			var listener net.Listener
			listener, port = vs.Listen()
			clientHello, _ := getHelloConstant(c17ID, port)
			srvT = newTransfer(vs.NewSink("srv-inband-out"), nil, false, nil)
			srvT.acceptOnTunnel(listener, c17ID, port)
			// the other connection attempts
			for i, kind := range p.Attackers {
				i, kind := i, kind
				vs.Go(fmt.Sprintf("attacker%d", i), func() {
					c := vs.Dial(port, fmt.Sprintf("atk%d", i))
					if c == nil {
						return
					}
					atkConns = append(atkConns, c)
					evil := []byte(fmt.Sprintf("EVIL%d#DATA:AAAA\n", i))
					switch kind {
					case "wrong":
						c.Write([]byte("::TRZSZ::CLIENT::HELLO::bogus:1"))
						c.Write(evil)
					case "wrongid":
						c.Write([]byte(fmt.Sprintf("::TRZSZ::CLIENT::HELLO::%s:%d", "99999999999", port)))
						c.Write(evil)
					case "wrongport":
						c.Write([]byte(fmt.Sprintf("::TRZSZ::CLIENT::HELLO::%s:%d", c17ID[:len(c17ID)-2], port+1)))
						c.Write(evil)
					case "prefix": // the right greeting followed by more bytes in the same write
						c.Write([]byte(clientHello + "x"))
						c.Write(evil)
					case "split": // the right greeting cut over two writes
						c.Write([]byte(clientHello[:10]))
						c.Write([]byte(clientHello[10:]))
						c.Write(evil)
					case "silent":
					case "flood":
						for k := 0; k < 5; k++ {
							c.Write(bytes.Repeat([]byte("F"), 200))
						}
					case "exact": // somebody who knows the greeting
						c.Write([]byte(clientHello))
						buf := make([]byte, 100)
						c.Read(buf)
						c.Write(evil)
					}
				})
			}
			// the genuine client
			if p.Connector != "none" {
				vs.SetFlag("client", true)
				cliT = newTransfer(vs.NewSink("cli-inband-out"), nil, false, nil)
				connector := func(pt int) net.Conn {
					switch p.Connector {
					case "nil":
						return nil
					case "late":
						vtime.Sleep(1500 * time.Millisecond)
					}
					c := vs.Dial(pt, "client")
					if c == nil {
						return nil
					}
					if p.Connector == "dead" {
						c.Close()
					}
					return c
				}
				cliT.connectToTunnel(connector, c17ID, port)
				vs.SetFlag("client", false)
			}
			vs.WaitQuiescent()
			// both ends now say something over whatever they adopted
			if cliT != nil {
				if c := cliT.tunnelConn.Load(); c != nil {
					(*c).Write([]byte("CLIENT-SAYS\n"))
				}
			}
			if c := srvT.tunnelConn.Load(); c != nil {
				(*c).Write([]byte("SERVER-SAYS\n"))
			}
			vs.WaitQuiescent()
			outcome, violation = c17Check(p, port, srvT, cliT, &obs, atkConns)
		})
		if strings.HasPrefix(violation, "(no-stall)") && s.Stall > 0 {
			violation = "" // the grace period ran out while everything was stalled: in-band is the specified fallback
		}
		res := &vs.ExecResult{Sched: s, Outcome: outcome, Violation: violation}
		switch {
		case len(s.Crash) > 0:
			res.Violation = "panic: " + s.CrashString()
		case s.Horizon:
			res.Violation = "step horizon reached"
		case s.Deadlock:
			res.Violation = "deadlock"
		}
		if res.Violation != "" {
			res.Signature = "c17:" + strings.Join(p.Attackers, ",") + ":" + p.Connector + ":" + firstWords(res.Violation, 7)
		}
		return res
	}
}

func c17Check(p c17Params, port int, srvT, cliT *trzszTransfer, obs *c17Obs, atk []*vs.Conn) (outcome, violation string) {
	clientHello, serverHello := getHelloConstant(c17ID, port)
	var adopted *vs.Conn
	vs.Peek(func() {
		if c := srvT.tunnelConn.Load(); c != nil {
			adopted = (*c).(*vs.Conn)
		}
	})
	outcome = "none adopted"
	if adopted != nil {
		outcome = "adopted " + adopted.Tag
		// the adopted connection's first read was exactly the greeting
		in := adopted.InPipe()
		if len(in.Log) == 0 || string(in.Written[:in.Log[0].Len]) != clientHello {
			first := ""
			if len(in.Log) > 0 {
				first = string(in.Written[:in.Log[0].Len])
			}
			return outcome, fmt.Sprintf("the server adopted connection %s whose first read was %q, not the greeting %q", adopted.Tag, clipStr(first, 60), clientHello)
		}
	}
	// every other server-side connection end
	for _, c := range vs.NetConns() {
		if !strings.HasSuffix(c.Name, ".server") || c == adopted {
			continue
		}
		in := c.InPipe()
		first := ""
		if len(in.Log) > 0 {
			first = string(in.Written[:in.Log[0].Len])
		}
		if first != clientHello {
			// presented something else (or nothing): no answer at all
			if len(c.Sent()) > 0 {
				return outcome, fmt.Sprintf("connection %s presented %q and still got an answer %q", c.Tag, clipStr(first, 40), clipStr(string(c.Sent()), 60))
			}
			if first != "" && !c.Closed {
				return outcome, fmt.Sprintf("connection %s presented %q and was not closed", c.Tag, clipStr(first, 40))
			}
		}
	}
	// nothing written by a non-adopted connection ever reached the transfer
	allowed := []byte{}
	if adopted != nil {
		allowed = adopted.InPipe().Written
	}
	for _, d := range obs.srvData {
		if !bytes.Contains(allowed, d) {
			return outcome, fmt.Sprintf("bytes %q reached the server's transfer but were not sent over the adopted connection", clipStr(string(d), 60))
		}
		if adopted != nil && adopted.Tag == "client" && bytes.Contains(d, []byte("EVIL")) {
			return outcome, fmt.Sprintf("an attacker's bytes %q reached the server's transfer", clipStr(string(d), 60))
		}
	}
	// the client adopts only a connection that answered with the server's greeting
	if cliT != nil {
		var cc *vs.Conn
		vs.Peek(func() {
			if c := cliT.tunnelConn.Load(); c != nil {
				cc = (*c).(*vs.Conn)
			}
		})
		if cc != nil {
			in := cc.InPipe()
			if len(in.Log) == 0 || string(in.Written[:in.Log[0].Len]) != serverHello {
				return outcome, "the client adopted a connection that did not answer with the server greeting"
			}
			outcome += ", client adopted"
		} else {
			outcome += ", client in-band"
		}
		if p.Connector == "ok" && len(p.Attackers) == 0 && (adopted == nil || cc == nil) {
			return outcome, "(no-stall) without any interference the genuine connection was not adopted on both ends"
		}
		if (p.Connector == "nil" || p.Connector == "dead") && cc != nil {
			return outcome, fmt.Sprintf("the client adopted a tunnel although its connector was %s", p.Connector)
		}
	}
	return outcome, ""
}

func c17AdoptRun(j vs.Job, p c17Params) *vs.JobResult {
	r := &vs.JobResult{}
	exec := c17Adopt(p)
	if j.Replay != nil {
		x := exec(j.Replay.Choices, nil, true)
		r.Notes = append(r.Notes, x.Sched.Trace...)
		r.Notes = append(r.Notes, "outcome: "+x.Outcome)
		if x.Violation != "" {
			r.Violate(x.Signature, x.Violation, nil)
		}
		return r
	}
	if p.Shard == 0 {
		n, err := vs.DeterminismCheck(exec)
		r.Replayed += int64(n)
		if err != "" {
			r.ToolErr = err
			return r
		}
	}
	st := vs.NewStats()
	e := &vs.Explorer{Exec: exec, Budget: vs.Budget{Total: p.Bound, FreeSwitch: p.Free, PerKind: map[string]int{vs.KClock: 1}}, Shard: p.Shard, NShards: p.NShards, St: st}
	if j.Deadline > 0 {
		e.Deadline = time.Unix(j.Deadline, 0)
	}
	e.Explore()
	r.AddStats(st)
	r.Nontrivial = int64(len(st.Outcomes))
	return r
}

// c17World: tunnel scenarios in the full world.
func c17WorldRun(j vs.Job, p c17Params) *vs.JobResult {
	r := &vs.JobResult{Outcomes: map[string]int64{}}
	wp := *p.W
	if j.Replay != nil && j.Replay.Detail != nil {
		b, _ := json.Marshal(j.Replay.Detail)
		json.Unmarshal(b, &wp)
	}
	exec := func(prefix, prefixN []int, trace bool) *vs.ExecResult {
		w, res := runWorld(wp, vs.Config{Trace: trace, ClockChoice: p.Bound > 0}, prefix, prefixN, func(w *world) {
			switch p.Connector {
			case "nil":
				w.filter.SetTunnelConnector(func(port int) net.Conn { return nil })
			case "late":
				w.filter.SetTunnelConnector(func(port int) net.Conn {
					vtime.Sleep(1500 * time.Millisecond)
					return dialOrNil(port, "client")
				})
			case "dead":
				w.filter.SetTunnelConnector(func(port int) net.Conn {
					c := vs.Dial(port, "client")
					if c == nil {
						return nil
					}
					c.Close()
					return c
				})
			}
			for i, kind := range p.Attackers {
				i, kind := i, kind
				if kind == "relay-plus" {
					// a stranger on the jump host dials the relay's own tunnel port and presents the right greeting followed by more bytes in the same segment
					vs.GoDaemon(fmt.Sprintf("attacker%d", i), func() {
						vs.WaitUntil("attacker.wait", func() bool { return len(w.relays) > 0 && w.relays[0].tunnelListener.Load() != nil })
						var port int
						var uid string
						vs.Peek(func() { port, uid = w.relays[0].tunnelRelayPort, w.relays[0].trigger.uniqueID })
						c := vs.Dial(port, fmt.Sprintf("atk%d", i))
						if c == nil {
							return
						}
						hello, _ := getHelloConstant(uid, port)
						c.Write([]byte(hello + "#ACT:eJwDAAAAAAE\n#fail:EVIL\n"))
						buf := make([]byte, 200)
						if n, _ := c.Read(buf); n > 0 {
							w.attackerAnswered = fmt.Sprintf("the relay answered a connection whose greeting was followed by more bytes: %q", buf[:n])
						}
					})
					continue
				}
				vs.GoDaemon(fmt.Sprintf("attacker%d", i), func() {
					// strangers try the port the server listens on (the first one opened in this execution)
					vs.WaitUntil("attacker.wait", func() bool { return w.srvStarted })
					c := vs.Dial(50001, fmt.Sprintf("atk%d", i))
					if c == nil {
						return
					}
					switch kind {
					case "wrong":
						c.Write([]byte("::TRZSZ::CLIENT::HELLO::bogus:1"))
					case "flood":
						for k := 0; k < 5; k++ {
							c.Write(bytes.Repeat([]byte("#DATA:F\n"), 20))
						}
					case "silent":
					}
					c.Write([]byte("#fail:EVIL\n"))
				})
			}
			if p.JunkEarly {
				// type-ahead and terminal noise in the window between the ACT (which says: tunnel) and the CFG
				vs.GoDaemon("inband-junk-early", func() {
					// (both ends agree from the moment the server has read the ACT that says so)
					vs.WaitUntil("junk.wait", func() bool { return w.srvTransfer != nil && w.srvTransfer.tunnelConnected })
					n := len(w.c2s) - 1
					w.c2s[0].Write([]byte("ls -l /tmp\r#fail:eJwDAAAAAAE\n#SUCC:1\n"))
					w.s2c[n].Write([]byte("noise\r\n#fail:eJwDAAAAAAE\n"))
				})
			}
			if p.Junk {
				// once both ends use the tunnel, bytes arriving in-band (terminal noise, a hostile echo) must be ignored
				vs.GoDaemon("inband-junk", func() {
					vs.WaitUntil("junk.wait", func() bool { return bytes.Contains(w.tunnelSent(), []byte("#CFG:")) })
					n := len(w.c2s) - 1
					w.s2c[n].Write([]byte("#fail:eJwDAAAAAAE\n#DATA:AAAA\nnoise\r\n"))
					w.c2s[0].Write([]byte("#fail:eJwDAAAAAAE\n#SUCC:1\n"))
				})
			}
		})
		v := c01Oracle(w, res, true)
		if v == "" && w.attackerAnswered != "" {
			v = w.attackerAnswered
		}
		o := fmt.Sprintf("ok=%v tunnel=%v", v == "", len(res.TunC2S) > 0)
		if v == "" && (p.Connector == "nil" || p.Connector == "dead") && bytes.Contains(res.TunC2S, []byte("#ACT:")) {
			v = "the transfer used a tunnel although the connector was " + p.Connector
		}
		if v == "" && p.RelayHang && bytes.Contains(res.TunC2S, []byte("#ACT:")) {
			v = "the relay never completed the tunnel but the client used it"
		}
		if v == "" && p.Connector == "ok" && !p.RelayHang && res.Sched.Stall == 0 && !bytes.Contains(res.TunC2S, []byte("#ACT:")) {
			v = "the genuine tunnel was available but the transfer went in-band"
		}
		x := &vs.ExecResult{Sched: res.Sched, Outcome: o, Violation: v, Detail: wp}
		if v != "" {
			x.Signature = "c17:world:" + p.Connector + ":" + firstWords(v, 8)
		}
		if trace {
			res.Sched.Trace = append(res.Sched.Trace, fmt.Sprintf("client sent over the tunnel (%d bytes) ...%q", len(res.TunC2S), clipTail(res.TunC2S, 300)),
				fmt.Sprintf("server received over its tunnel end (%d bytes) ...%q", len(res.SrvTunGot), clipTail(res.SrvTunGot, 300)),
				fmt.Sprintf("server sent over the tunnel (%d bytes) ...%q", len(res.ServerSent), clipTail(res.ServerSent, 200)),
				fmt.Sprintf("srvErr=%q srvDoneAt=%v cliDoneAt=%v", clipStr(res.SrvErr, 300), res.SrvDoneAt, res.CliDoneAt))
		}
		return x
	}
	if j.Replay != nil {
		x := exec(j.Replay.Choices, nil, true)
		r.Notes = append(r.Notes, x.Sched.Trace...)
		r.Notes = append(r.Notes, "outcome: "+x.Outcome)
		if x.Violation != "" {
			r.Violate(x.Signature, x.Violation, wp)
		}
		return r
	}
	st := vs.NewStats()
	e := &vs.Explorer{Exec: exec, Budget: vs.Budget{Total: p.Bound}, Shard: p.Shard, NShards: p.NShards, St: st}
	if j.Deadline > 0 {
		e.Deadline = time.Unix(j.Deadline, 0)
	}
	e.Explore()
	r.AddStats(st)
	r.Nontrivial = r.Execs
	return r
}

func clipTail(b []byte, n int) string {
	if len(b) > n {
		b = b[len(b)-n:]
	}
	return string(b)
}

// tunnelSent: what the server has written over the tunnel so far.
func (w *world) tunnelSent() []byte {
	for _, c := range vs.NetConns() {
		if strings.HasSuffix(c.Name, ".server") && c.Tag == w.srvConnTag() {
			return c.Sent()
		}
	}
	return nil
}

func c17Run(j vs.Job) *vs.JobResult {
	var p c17Params
	j.Decode(&p)
	if p.Mode == "world" {
		return c17WorldRun(j, p)
	}
	return c17AdoptRun(j, p)
}

func init() {
	kinds := []string{"wrong", "wrongid", "wrongport", "prefix", "split", "silent", "flood", "exact"}
	vs.Register(&vs.Check{
		ID:    "C17",
		Level: "model_checking",
		Rule: "(a) the real acceptOnTunnel / connectToTunnel over the fake network: every multiset of 0..2 (quick) / 0..3 (thorough) other connection attempts over {wrong greeting, wrong id, wrong port, greeting+extra byte, greeting split over two writes, silent, flood, exact greeting} x genuine connector {ok, refuses, late, dead, absent}, " +
			"all schedules within 2 (quick) / 3 (thorough) deviations of the default schedule (context switch at any scheduling point, select alternative, one timer landing first); (b) full transfers with the tunnel: in-band bytes injected after both ends agreed, connector refusing / late / dead, strangers dialling the server's port, all single schedule deviations",
		Assumptions: []string{"the network is the fake one of the harness (Accept order, every Read and Write are scheduling points); one write is delivered by one read", "a stranger who presents the exact greeting is by definition authenticated: only 'at most one adopted' and byte isolation are asserted for it"},
		TraceNote:   "explored directly on the implementation; the number counts executions replayed from recorded choice lists",
		QuickBudget: 240, ThoroughBudget: 1500,
		Jobs: func(tier string) []vs.Job {
			var jobs []vs.Job
			maxAtk, bound := 2, 1
			if tier == "thorough" {
				maxAtk, bound = 3, 2
			}
			var sets [][]string
			var rec func(start int, cur []string)
			rec = func(start int, cur []string) {
				sets = append(sets, append([]string(nil), cur...))
				if len(cur) == maxAtk {
					return
				}
				for i := start; i < len(kinds); i++ {
					rec(i, append(cur, kinds[i]))
				}
			}
			rec(0, nil)
			sort.SliceStable(sets, func(a, b int) bool { return len(sets[a]) > len(sets[b]) })
			for _, set := range sets {
				for _, conn := range []string{"ok", "nil", "late", "dead", "none"} {
					if conn != "ok" && len(set) > 1 && tier != "thorough" {
						continue
					}
					if conn == "none" && len(set) == 0 {
						continue
					}
					// all schedules within b deviations of the default one (every context switch, preemptive or
					// not, every select alternative and one timer landing first count as a deviation)
					b, free := bound+1, false
					if len(set) == 3 {
						b = 2
					}
					shards := 1
					if len(set) >= 2 && tier == "thorough" {
						shards = 4
					}
					for s := 0; s < shards; s++ {
						jobs = append(jobs, vs.MkJob(fmt.Sprintf("adopt %v conn=%s b%d free=%v %d/%d", set, conn, b, free, s, shards), c17Params{Mode: "adopt", Attackers: set, Connector: conn, Bound: b, Free: free, Shard: s, NShards: shards}))
					}
				}
			}
			for _, dir := range []string{"up", "down"} {
				for _, relays := range []int{0, 1} {
					base := wParams{Dir: dir, Tree: "small3", Tunnel: true, Relays: relays, Timeout: 3}
					for _, c := range []c17Params{
						{Connector: "ok", Junk: true},
						{Connector: "ok", JunkEarly: true},
						{Connector: "ok", RelayHang: true},
						{Connector: "nil"}, {Connector: "late"}, {Connector: "dead"},
						{Connector: "ok", Attackers: []string{"wrong", "flood", "silent"}},
					} {
						if relays == 1 && len(c.Attackers) > 0 {
							// through a relay the strangers of the direct case are replaced by one that dials the relay's own port
							c.Attackers = []string{"relay-plus"}
						}
						if c.RelayHang {
							if relays == 0 {
								continue
							}
							hb := base
							hb.RelayConnector = "hang"
							c.Mode, c.W, c.Bound = "world", &hb, 0
							c.Shard, c.NShards = 0, 1
							jobs = append(jobs, vs.MkJob(fmt.Sprintf("world %s relays=%d relay connector hangs", dir, relays), c))
							continue
						}
						c.Mode, c.W, c.Bound = "world", &base, 1
						n := 4
						if len(c.Attackers) == 1 && c.Attackers[0] == "relay-plus" && tier != "thorough" {
							c.Bound, n = 0, 1 // the default schedule in quick, every single deviation in thorough
						}
						for s := 0; s < n; s++ {
							c.Shard, c.NShards = s, n
							jobs = append(jobs, vs.MkJob(fmt.Sprintf("world %s relays=%d conn=%s junk=%v early=%v atk=%v %d/%d", dir, relays, c.Connector, c.Junk, c.JunkEarly, c.Attackers, s, n), c))
						}
					}
				}
			}
			return jobs
		},
		Run: c17Run,
	})
}
