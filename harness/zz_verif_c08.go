package trzsz

// C08 — with -y the destination ends up identical to the source whatever was there
// (DESIGN.md §3 C08). Two tiers in one build: the real 10 MiB comparison block with multi-block
// files, and a scaled tier where rule R11 lets the driver shrink the block to 64 bytes so that every
// relation between lengths, block boundaries and first differing offset is enumerated.

import (
	"bytes"
	"fmt"
	"os"
	"path/filepath"
	"strings"
	"time"

	vs "github.com/trzsz/trzsz-go/zzverif/vsched"
)

const c08RealStep = 10 * 1024 * 1024

// c08Prev builds the previous destination content from the source content.
//
//	rel:  absent | empty | shorter:<n> | same | longer:<n>   (n = bytes shorter / longer)
//	diff: -1 none, otherwise the offset of the first differing byte
func c08Prev(src []byte, rel string, diff int) ([]byte, bool) {
	var d []byte
	switch {
	case rel == "absent":
		return nil, false
	case rel == "empty":
		d = []byte{}
	case rel == "same":
		d = append([]byte(nil), src...)
	case strings.HasPrefix(rel, "shorter:"):
		var n int
		fmt.Sscanf(rel[8:], "%d", &n)
		if n > len(src) {
			n = len(src)
		}
		d = append([]byte(nil), src[:len(src)-n]...)
	case strings.HasPrefix(rel, "longer:"):
		var n int
		fmt.Sscanf(rel[7:], "%d", &n)
		d = append(append([]byte(nil), src...), bytes.Repeat([]byte{'Z'}, n)...)
	default:
		panic("c08Prev: " + rel)
	}
	if diff >= 0 && diff < len(d) {
		d[diff] ^= 0x55
	}
	return d, true
}

func c08Prepopulate(dst string, recipe string, entries []treeEntry) {
	// recipe: <rel>:<diff> applied to every incoming top-level file
	i := strings.LastIndex(recipe, "@")
	rel, diff := recipe[:i], 0
	fmt.Sscanf(recipe[i+1:], "%d", &diff)
	for _, e := range entries {
		if e.Dir {
			continue
		}
		if d, ok := c08Prev(e.Data, rel, diff); ok {
			putFile(filepath.Join(dst, filepath.FromSlash(e.Path)), d)
		}
	}
}

// c08Match is the reference for the prefix both ends can prove equal: the largest cumulative hash
// step in {step, 2 step, ..., min(|S|,|D|)} at which S and D agree.
func c08Match(src, prev []byte, step int) int {
	size := len(src)
	if len(prev) < size {
		size = len(prev)
	}
	match := 0
	for s := step; ; s += step {
		if s > size {
			s = size
		}
		if s <= match || !bytes.Equal(src[match:s], prev[match:s]) {
			break
		}
		match = s
		if s == size {
			break
		}
	}
	return match
}

type c08Params struct {
	W    []wParams `json:"w"`
	Step int64     `json:"step"` // comparison block for this job (R11)
}

func c08Run(j vs.Job) *vs.JobResult {
	var p c08Params
	j.Decode(&p)
	r := &vs.JobResult{Outcomes: map[string]int64{}}
	states := map[uint64]struct{}{}
	saved := kPrefixHashStep
	kPrefixHashStep = p.Step
	defer func() { kPrefixHashStep = saved }()
	for _, wp := range p.W {
		if j.Deadline > 0 && time.Now().Unix() > j.Deadline {
			r.Capped = "deadline"
			break
		}
		var written int64
		vs.HookFn = func(name string, args ...any) error {
			if name == "fileWrite" {
				written += int64(len(args[0].([]byte)))
			}
			return nil
		}
		w, res := runWorld(wp, vs.Config{Trace: j.Replay != nil}, nil, nil, nil)
		vs.HookFn = nil
		r.Execs++
		r.Nontrivial++
		r.Steps += int64(res.Sched.Steps)
		for h := range res.Sched.Finger {
			states[h] = struct{}{}
		}
		v := ""
		said := serverSaid(res.SrvStdout)
		srvOK := res.SrvDone && res.SrvErr == "" && strings.HasPrefix(said, "Saved ")
		cliOK := strings.HasPrefix(res.ClientExit, "Saved ")
		switch {
		case len(res.Sched.Crash) > 0:
			v = "panic: " + res.Sched.CrashString()
		case res.Sched.Horizon:
			v = "horizon reached: the transfer does not terminate"
		case !srvOK || !cliOK:
			v = fmt.Sprintf("overwrite transfer failed: server err=%q said=%q client exit=%q fail=%q", clipStr(res.SrvErr, 200), clipStr(said, 100), clipStr(res.ClientExit, 80), clipStr(res.ClientFail, 200))
		default:
			// D' == S for every transferred file; everything else as before
			want := w.expectedDst(nil)
			plain := res.Dst
			for k, x := range want {
				if plain[k] != x {
					v = fmt.Sprintf("destination %s is %s after a successful -y transfer, source is %s", k, plain[k], x)
				}
			}
			full := res.DstFull
			for k, x := range w.pre {
				if _, transferred := want[k]; transferred {
					continue
				}
				if full[k] != x {
					v = fmt.Sprintf("sibling %s outside the transferred names changed: %s -> %s", k, x, full[k])
				}
			}
			for k := range plain {
				if _, a := want[k]; !a {
					if _, b := w.pre[k]; !b {
						v = fmt.Sprintf("unexpected new entry %s", k)
					}
				}
			}
			// payload written = |S| - proven common prefix (protocol >= 3), whole file otherwise
			if v == "" {
				var expect int64
				for _, e := range w.entries {
					if e.Dir {
						continue
					}
					match := 0
					if wp.Protocol == 0 || wp.Protocol >= 3 {
						rel, diff := wp.DstPre[4:strings.LastIndex(wp.DstPre, "@")], 0
						fmt.Sscanf(wp.DstPre[strings.LastIndex(wp.DstPre, "@")+1:], "%d", &diff)
						if prev, ok := c08Prev(e.Data, rel, diff); ok {
							match = c08Match(e.Data, prev, int(p.Step))
						}
					}
					expect += int64(len(e.Data) - match)
				}
				if written != expect {
					v = fmt.Sprintf("%d payload bytes were written to the destination, the reference (size minus the proven common prefix) says %d", written, expect)
				}
			}
		}
		r.Outcomes[fmt.Sprintf("ok=%v", v == "")]++
		r.Max("payload_bytes_max", float64(written))
		if len(r.Samples) < 2 {
			r.Samples = append(r.Samples, fmt.Sprintf("step=%d %s -> written=%d", p.Step, wp, written))
		}
		if j.Replay != nil {
			r.Notes = append(r.Notes, fmt.Sprintf("srvErr=%q stdout=%q clientExit=%q clientFail=%q written=%d", res.SrvErr, res.SrvStdout, res.ClientExit, res.ClientFail, written))
		}
		if v != "" {
			r.Violate("c08:"+wp.String(), fmt.Sprintf("step=%d %s: %s", p.Step, wp.String(), v), nil)
		}
	}
	for h := range states {
		r.States = append(r.States, h)
	}
	return r
}

func c08Recipes(size, step int) []string {
	var out []string
	add := func(rel string, diffs ...int) {
		for _, d := range diffs {
			out = append(out, fmt.Sprintf("c08:%s@%d", rel, d))
		}
	}
	uniq := func(xs ...int) []int {
		seen := map[int]bool{}
		var o []int
		for _, x := range xs {
			if x >= -1 && x < size+step && !seen[x] {
				seen[x] = true
				o = append(o, x)
			}
		}
		return o
	}
	// first differing offset classes: none, 0, mid-block, last byte of a block, first byte of the next, in block 2, in the tail
	diffs := uniq(-1, 0, step/2, step-1, step, step+step/2, 2*step-1, 2*step, size-1, size-step/3)
	add("absent", -1)
	add("empty", -1)
	add("same", diffs...)
	for _, n := range []int{1, step / 2, step, step + 1} {
		if n < size {
			add(fmt.Sprintf("shorter:%d", n), diffs...)
		}
		add(fmt.Sprintf("longer:%d", n), diffs...)
	}
	return out
}

func init() {
	vs.Register(&vs.Check{
		ID:    "C08",
		Level: "exploration",
		Rule: "(source, previous destination) pairs by relative length {absent, empty, shorter by 1/half/one/one+1 block, same, longer ...} x first differing offset class {none, 0, mid block, last byte of a block, first of the next, block 2, tail} " +
			"x size at block boundaries x protocol {2,3,4} x base64/binary x direction, single files and (six relations) the files of a directory; scaled tier: comparison block 64 bytes (rule R11), sizes 0..200; real tier: 10 MiB block, sizes around 10 and 20 MiB; each a full -y transfer",
		Assumptions: []string{"the scaled tier runs the same code with one constant (kPrefixHashStep) changed through the overlay; it is always accompanied by the real-constant tier", "payload written is observed through the R9 hook on simpleFileWriter.Write"},
		QuickBudget: 110, ThoroughBudget: 900, DiedIsViolation: true,
		Jobs: func(tier string) []vs.Job {
			var jobs []vs.Job
			// scaled tier
			sizes := []int{0, 1, 63, 64, 65, 128, 129, 200}
			protos := []int{0, 3, 2}
			if tier == "thorough" {
				sizes = []int{0, 1, 63, 64, 65, 127, 128, 129, 191, 192, 200}
			}
			var cfgs []wParams
			for _, sz := range sizes {
				for _, rec := range c08Recipes(sz, 64) {
					for _, pr := range protos {
						for _, dir := range []string{"up", "down"} {
							for _, bin := range []bool{false, true} {
								if bin && tier != "thorough" && (pr == 2 || dir == "down") {
									continue
								}
								cfgs = append(cfgs, wParams{Dir: dir, Protocol: pr, Binary: bin, Overwrite: true, Tree: fmt.Sprintf("one:E:%d", sz), DstPre: rec})
							}
						}
					}
				}
			}
			// the same relations for the files of a directory sent with -y (directory mode opens its files on another path than plain mode)
			for _, rec := range []string{"c08:longer:9@-1", "c08:longer:7@3", "c08:shorter:5@-1", "c08:same@-1", "c08:same@70", "c08:empty@-1"} {
				for _, pr := range protos {
					for _, dir := range []string{"up", "down"} {
						cfgs = append(cfgs, wParams{Dir: dir, Protocol: pr, Directory: true, Overwrite: true, Tree: "dir", DstPre: rec})
					}
				}
			}
			const batch = 96
			for i := 0; i < len(cfgs); i += batch {
				e := i + batch
				if e > len(cfgs) {
					e = len(cfgs)
				}
				jobs = append(jobs, vs.MkJob(fmt.Sprintf("scaled %d-%d", i, e), c08Params{W: cfgs[i:e], Step: 64}))
			}
			// real constant: multi-block files
			realSizes := []int{c08RealStep + 1, 2*c08RealStep - 1}
			if tier == "thorough" {
				realSizes = []int{c08RealStep - 1, c08RealStep, c08RealStep + 1, 2*c08RealStep - 1, 2 * c08RealStep, 2*c08RealStep + 1, 25 * 1024 * 1024}
			}
			for _, sz := range realSizes {
				recs := []string{"c08:same@-1", fmt.Sprintf("c08:same@%d", c08RealStep-1), fmt.Sprintf("c08:same@%d", c08RealStep), fmt.Sprintf("c08:shorter:1@%d", c08RealStep+5), "c08:longer:1@0", fmt.Sprintf("c08:longer:7@%d", sz-1)}
				if tier == "thorough" {
					recs = c08Recipes(sz, c08RealStep)
				}
				for i, rec := range recs {
					dir := []string{"up", "down"}[i%2]
					pr := []int{0, 3, 2}[i%3]
					jobs = append(jobs, vs.MkJob(fmt.Sprintf("real %d %s", sz, rec), c08Params{W: []wParams{{Dir: dir, Protocol: pr, Binary: i%4 == 1, Overwrite: true, Tree: fmt.Sprintf("one:R:%d", sz), DstPre: rec}}, Step: c08RealStep}))
				}
			}
			return jobs
		},
		Run: c08Run,
	})
	_ = os.Getenv
}
