package trzsz

// C09 — received files can only be created inside the chosen destination directory
// (DESIGN.md §3 C09). The real sendFiles is fed doctored source records (hostile path lists, hostile
// plain names, hostile archive entry headers); the receiving role is the real one on either side.

import (
	"fmt"
	"os"
	"path/filepath"
	"strings"
	"time"

	vs "github.com/trzsz/trzsz-go/zzverif/vsched"
)

var c09Components = []string{"a", "..", ".", "", "/", "/abs", "a/b", `a\b`, "../x", "../victim.txt", "../../victim.txt", "/..", "//..", "../..", "\u2025", "\uff0e\uff0e", "\uff0e\uff0e\uff0fvictim.txt", "victim.txt", strings.Repeat("N", 300)}

type c09Case struct {
	W       wParams  `json:"w"`
	Rel     []string `json:"rel"`     // hostile path list of the file entry
	Archive bool     `json:"archive"` // entry travels inside an archive stream (below a directory record)
	// Prior: an ordinary directory record ["a"] with the same path id precedes the hostile record (the receiver
	// remembers a local name per path id and substitutes it for the first element of later records)
	Prior bool `json:"prior,omitempty"`
	// Nested: no hostile name at all — an ordinary transfer into <scratch>/nest/2024/incoming (three empty
	// levels) is stopped with 'delete' before scheduler step W.Stop.Step; the destination directory and the
	// levels above it are not inside the destination
	Nested bool `json:"nested,omitempty"`
}

type c09Params struct {
	Cases []c09Case `json:"cases"`
}

// c09Sandbox lays out root/{dst, victim.txt, vdir/inner.txt, payload} and returns the snapshot of
// everything outside dst.
func c09Sandbox(root string) {
	putFile(filepath.Join(root, "victim.txt"), []byte("victim: must never change"))
	putFile(filepath.Join(root, "vdir", "inner.txt"), []byte("victim inner"))
	putFile(filepath.Join(root, "x"), []byte("victim x"))
	putFile(filepath.Join(root, "payload", "payload.txt"), []byte("HOSTILE PAYLOAD"))
	putFile(filepath.Join(root, "dst", "existing.txt"), []byte("existing inside"))
}

func outsideSnapshot(root string) map[string]string {
	m := snapshotFull(root)
	for k := range m {
		if k == "dst" || strings.HasPrefix(k, "dst/") {
			delete(m, k)
		}
	}
	return m
}

func c09Run(j vs.Job) *vs.JobResult {
	var p c09Params
	j.Decode(&p)
	r := &vs.JobResult{Outcomes: map[string]int64{}}
	states := map[uint64]struct{}{}
	for _, c := range p.Cases {
		if j.Deadline > 0 && time.Now().Unix() > j.Deadline {
			r.Capped = "deadline"
			break
		}
		if c.Nested {
			inside := func(m map[string]string) map[string]string {
				for k := range m {
					if strings.HasPrefix(k, "nest/2024/incoming/") {
						delete(m, k)
					}
				}
				return m
			}
			var before map[string]string
			_, res := runWorld(c.W, vs.Config{Trace: j.Replay != nil}, nil, nil, func(w *world) {
				putFile(filepath.Join(w.root, "victim.txt"), []byte("victim: must never change"))
				before = inside(outsideSnapshot(w.root))
			})
			r.Execs++
			r.Nontrivial++
			r.Outcomes[fmt.Sprintf("nested stop-hit=%v", res.StopHit)]++
			v := ""
			switch {
			case len(res.Sched.Crash) > 0:
				v = "panic: " + res.Sched.CrashString()
			case res.Sched.Horizon:
				v = "horizon reached"
			default:
				if d := snapDiff(before, inside(res.Outside)); d != "" {
					v = "a transfer stopped with 'delete' created, modified or removed something outside the destination directory (the directory itself and the levels above it included): " + d
				}
			}
			if v != "" {
				r.Violate("c09:nested:"+firstWords(v, 8), c.W.String()+": "+v, nil)
			}
			continue
		}
		var before map[string]string
		var root string
		perm := uint32(0o644)
		dperm := uint32(0o755)
		w, res := runWorld(c.W, vs.Config{Trace: j.Replay != nil}, nil, nil, func(w *world) {
			// the destination lives one level down so that ".." has somewhere to go
			root = w.root
			os.RemoveAll(w.dstRoot)
			c09Sandbox(root)
			payload := filepath.Join(root, "payload", "payload.txt")
			var files []*sourceFile
			if c.Archive {
				files = append(files, &sourceFile{PathID: 0, AbsPath: filepath.Join(root, "payload"), RelPath: []string{"adir"}, IsDir: true, Perm: &dperm})
				files = append(files, &sourceFile{PathID: 0, AbsPath: payload, RelPath: append([]string{"adir"}, c.Rel...), Size: 15, Perm: &perm})
			} else if c.Prior {
				files = append(files, &sourceFile{PathID: 0, AbsPath: filepath.Join(root, "payload"), RelPath: []string{"a"}, IsDir: true, Perm: &dperm})
				files = append(files, &sourceFile{PathID: 0, AbsPath: payload, RelPath: c.Rel, Size: 15, Perm: &perm})
			} else {
				files = append(files, &sourceFile{PathID: 0, AbsPath: payload, RelPath: c.Rel, Size: 15, Perm: &perm})
			}
			before = outsideSnapshot(root)
			w.pre = snapshotFull(w.dstRoot)
			if c.W.Dir == "down" {
				w.srcOverride = files
			} else {
				w.startRawUploadClient(files)
			}
		})
		_ = w
		r.Execs++
		r.Nontrivial++
		r.Steps += int64(res.Sched.Steps)
		for h := range res.Sched.Finger {
			states[h] = struct{}{}
		}
		v := ""
		after := res.Outside
		switch {
		case len(res.Sched.Crash) > 0:
			v = "panic: " + res.Sched.CrashString()
		case res.Sched.Horizon:
			v = "horizon reached"
		default:
			if d := snapDiff(before, after); d != "" {
				v = "something outside the destination directory was created, modified or removed: " + d
			}
		}
		refused := res.SrvErr != "" || res.ClientFail != "" || res.ServerFail != ""
		r.Outcomes[fmt.Sprintf("refused=%v", refused)]++
		if len(r.Samples) < 3 {
			r.Samples = append(r.Samples, fmt.Sprintf("%s rel=%q archive=%v -> refused=%v dst=%v", c.W, c.Rel, c.Archive, refused, keysOf(res.Dst)))
		}
		if j.Replay != nil {
			r.Notes = append(r.Notes, fmt.Sprintf("srvErr=%q clientFail=%q serverFail=%q exit=%q dst=%v outside-before=%v outside-after=%v", res.SrvErr, res.ClientFail, res.ServerFail, res.ClientExit, res.Dst, before, after))
		}
		if v != "" {
			r.Violate(fmt.Sprintf("c09:%s:%q:%v:%v", c.W.String(), c.Rel, c.Archive, c.Prior), fmt.Sprintf("%s rel=%q archive=%v after-a-directory-record-with-the-same-path-id=%v: %s", c.W.String(), c.Rel, c.Archive, c.Prior, v), nil)
		}
	}
	for h := range states {
		r.States = append(r.States, h)
	}
	return r
}

func keysOf(m map[string]string) []string {
	var k []string
	for x := range m {
		k = append(k, x)
	}
	return k
}

func c09Cases(tier string) []c09Case {
	var out []c09Case
	var lists [][]string
	maxLen := 2
	if tier == "thorough" {
		maxLen = 3
	}
	var rec func(cur []string)
	rec = func(cur []string) {
		if len(cur) > 0 {
			lists = append(lists, append([]string(nil), cur...))
		}
		if len(cur) == maxLen {
			return
		}
		for _, c := range c09Components {
			rec(append(cur, c))
		}
	}
	rec(nil)
	protos := []int{0, 2}
	if tier == "thorough" {
		protos = []int{0, 3, 2, 1}
	}
	for _, dir := range []string{"up", "down"} {
		for _, pr := range protos {
			for _, ow := range []bool{false, true} {
				for _, dm := range []bool{false, true} {
					for _, l := range lists {
						if !dm && pr != 0 && pr < 3 && len(l) > 1 {
							continue // plain NAME messages carry only the last element
						}
						w := wParams{Dir: dir, Protocol: pr, Overwrite: ow, Directory: dm, Tree: "one:T:1", RawClient: dir == "up"}
						out = append(out, c09Case{W: w, Rel: l})
						if dm && len(l) <= 2 {
							out = append(out, c09Case{W: w, Rel: l, Archive: true})
							out = append(out, c09Case{W: w, Rel: l, Prior: true})
						} else if dm && pr == 0 && !ow {
							// (the only configuration in which a directory travels as an archive: longer entry paths too)
							out = append(out, c09Case{W: w, Rel: l, Archive: true})
						}
					}
				}
			}
		}
	}
	return out
}

func init() {
	vs.Register(&vs.Check{
		ID:    "C09",
		Level: "exploration",
		Rule: "peer-supplied names: every list of 1..2 (quick) / 1..3 (thorough) components over {a, .., ., empty, /, /abs, a/b, a\\b, ../x, ../victim.txt, ../../victim.txt, /.., //.., ../.., U+2025, U+FF0E U+FF0E, U+FF0E U+FF0E U+FF0F victim.txt (compatibility look-alikes of '..' and '/'), victim.txt, 300-byte name} as JSON path list, as plain NAME (last element), as archive entry header (below the archive's root; every position of the entry path), and as second record after an ordinary directory record with the same path id " +
			"x overwrite x directory mode x protocol x receiving role (client downloading / server receiving); each a full transfer by the real sendFiles fed doctored records; oracle: full snapshot of everything outside the destination is unchanged; plus ordinary transfers into a nested, otherwise empty destination stopped with 'delete' before every 6th scheduler step (the destination directory and the levels above it must survive)",
		Assumptions: []string{"the upload sender is the body of TrzszFilter.uploadFiles re-assembled from the product's own functions (the property is about the receiver)", "'\\' is not a separator on this platform"},
		QuickBudget: 100, ThoroughBudget: 900, DiedIsViolation: true,
		Jobs: func(tier string) []vs.Job {
			cases := c09Cases(tier)
			// ordinary transfers into a nested, otherwise empty destination, stopped with 'delete' before every 6th step
			for _, dir := range []string{"up", "down"} {
				for _, w := range []wParams{{Dir: dir, Tree: "small3", DstNested: true, Timeout: 3}, {Dir: dir, Tree: "dir", Directory: true, DstNested: true, Timeout: 3}, {Dir: dir, Tree: "dir", Directory: true, Overwrite: true, DstNested: true, Timeout: 3, Protocol: 2}} {
					for step := 4; step <= 700; step += 6 {
						c := w
						c.Stop = &wStop{Side: "client", Delete: true, Step: step}
						cases = append(cases, c09Case{W: c, Nested: true})
					}
				}
			}
			var jobs []vs.Job
			const batch = 128
			for i := 0; i < len(cases); i += batch {
				e := i + batch
				if e > len(cases) {
					e = len(cases)
				}
				jobs = append(jobs, vs.MkJob(fmt.Sprintf("cases %d-%d", i, e), c09Params{Cases: cases[i:e]}))
			}
			return jobs
		},
		Run: c09Run,
	})
}
