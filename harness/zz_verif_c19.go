package trzsz

// C19 — a zmodem session always ends by handing the terminal back (DESIGN.md §3 C19).
// The real filter with EnableZmodem, a scripted remote rz/sz and a model of the local lrzsz helper
// (rule R8: zmodem.go's os/exec is the vexec shim); all schedules within a deviation bound, including
// the 500 ms cleanup timer and the 20 s watchdogs landing first.

import (
	"bytes"
	"errors"
	"fmt"
	"os"
	"path/filepath"
	"regexp"
	"strings"
	"time"

	vs "github.com/trzsz/trzsz-go/zzverif/vsched"
	vexec "github.com/trzsz/trzsz-go/zzverif/vsched/vexec"
	vtime "github.com/trzsz/trzsz-go/zzverif/vsched/vtime"
)

// c05AfterSessionInput: what the user types after a zmodem session, each token a read of its own.
var c05AfterSessionInput = []string{"\x03", "x", "\x03", "\x18", "\x1b[A", "ls\r", "\x03"}

var lineNoRe = regexp.MustCompile(`/[A-Za-z_]+\.go:[0-9]+`)

type c19Params struct {
	Upload  bool   `json:"upload"`
	Helper  string `json:"helper"`         // missing | exit0 | exit1 | run0 | run1 | run3 | silent | late
	Server  string `json:"server"`         // finish | cancel-before | cancel-before-split | cancel-before-8can | cancel-after | keeps | quiet
	CtrlCMs int    `json:"ctrlc_ms"`       // < 0: none; otherwise the user presses Ctrl-C that long after the header
	Veto    string `json:"veto,omitempty"` // "cancel" | "cannot-open": the header's read also carries this (must not start a session)
	// InputFirst (used by C05): once the session is over and the remote side has been quiet, the user types
	// before the remote side prints anything — every token as a read of its own — and all of it must arrive.
	InputFirst bool `json:"input_first,omitempty"`
	// Shell: the remote side is a shell that answers every Enter it is sent on its own (the re-prompt Enter the
	// product types when it hands the terminal back) with a numbered prompt
	Shell bool `json:"shell,omitempty"`
	// Typed (uploads): the remote rz is started by the wrapper itself (UploadFiles with the upload command set to rz: it types
	// Ctrl-C and "rz" + Enter); the remote echo of that command arrives in the same read as rz's start header
	// ("merged") or as a read of its own ("split"). The session must start all the same.
	Typed   string `json:"typed,omitempty"`
	Bound   int    `json:"bound"`
	Shard   int    `json:"shard"`
	NShards int    `json:"nshards"`
}

const zFinish = "**\x18B0800000000022d\r\x8a"

type c19Helper struct {
	kind     string
	cmds     []*vexec.Cmd // every helper process that was started
	started  int
	serverOK func() bool // the remote side has sent its finish header
}

func (h *c19Helper) Start(c *vexec.Cmd) error {
	h.started++
	if h.kind == "missing" {
		return errors.New("exec: \"" + c.Path + "\": executable file not found in $PATH")
	}
	h.cmds = append(h.cmds, c)
	exit := func(code int) {
		c.Exited, c.ExitCode = true, code
		c.Stdout.CloseWrite()
	}
	switch h.kind {
	case "exit0":
		exit(0)
		return nil
	case "exit1":
		exit(1)
		return nil
	}
	vs.Go("helper", func() {
		// a real rz/sz leaves when it is sent the cancel sequence or killed
		cancelled := func() bool { return c.Killed || bytes.Contains(c.Stdin.Written, zmodemCancelSubSequence) }
		emit := func(b string) { c.Stdout.Write([]byte(b)) }
		switch h.kind {
		case "run0", "run1", "run3":
			n := int(h.kind[3] - '0')
			for i := 0; i < n && !cancelled(); i++ {
				emit(fmt.Sprintf("**\x18B0100000023be50\r\x8a\x11chunk%d", i))
				vtime.Sleep(50 * time.Millisecond)
			}
			if !cancelled() {
				emit(zFinish)
				// wait for the over-and-out or a cancel, as lrzsz does
				vs.WaitUntilOrTimeout("helper.oo", 3*time.Second, func() bool { return cancelled() || bytes.Contains(c.Stdin.Written, []byte("OO")) })
			}
			if cancelled() {
				exit(1)
			} else {
				exit(0)
			}
		case "silent":
			vs.WaitUntil("helper.cancel", cancelled)
			exit(1)
		case "late":
			vs.WaitUntilOrTimeout("helper.late", 30*time.Second, func() bool { return cancelled() || h.serverOK() })
			if !cancelled() {
				vtime.Sleep(300 * time.Millisecond)
				emit("**\x18B0100000023be50\r\x8a\x11late")
				emit(zFinish)
				vs.WaitUntilOrTimeout("helper.oo", 3*time.Second, func() bool { return cancelled() || bytes.Contains(c.Stdin.Written, []byte("OO")) })
			}
			if cancelled() {
				exit(1)
			} else {
				exit(0)
			}
		}
	})
	return nil
}

type c19Obs struct {
	term, c2s        []byte
	helperStarts     int
	probe1, probe2   int
	probeIn          int
	sessionStarted   bool
	stillTransfering bool
	remoteCancelled  bool // the remote side itself sent a cancel sequence
	inputFirst       string
	helperLeft       int // helper processes still running when everything has settled
	enters           int // lone Enters the remote shell received (Shell mode)
	promptsShown     int // of the prompts it answered with, how many reached the terminal
}

func c19Exec(p c19Params) vs.ExecFn {
	return func(prefix, prefixN []int, trace bool) *vs.ExecResult {
		var o c19Obs
		outcome, violation := "", ""
		root := filepath.Join(scratchDir(), fmt.Sprintf("z%d", worldSeq))
		worldSeq++
		os.MkdirAll(filepath.Join(root, "dl"), 0o755)
		os.WriteFile(filepath.Join(root, "up.txt"), []byte("upload me"), 0o644)
		defer os.RemoveAll(root)
		helper := &c19Helper{kind: p.Helper}
		vexec.Installed = helper
		defer func() { vexec.Installed = nil }()
		s := vs.Run(vs.Config{MaxSteps: 200000, MaxVirtual: 5 * time.Minute, Trace: trace, ClockChoice: true}, prefix, prefixN, func() {
			keys, term := vs.NewPipe("keys"), vs.NewSink("term")
			c2s, s2c := vs.NewPipe("c2s"), vs.NewPipe("s2c")
			serverFinished := false
			helper.serverOK = func() bool { return serverFinished }
			filter := NewTrzszFilter(keys, term, c2s, s2c, TrzszOptions{EnableZmodem: true, TerminalColumns: 80})
			filter.SetDefaultDownloadPath(filepath.Join(root, "dl"))
			if p.Upload && p.Typed != "" {
				filter.SetDragFileUploadCommand("rz")
				if err := filter.UploadFiles([]string{filepath.Join(root, "up.txt")}); err != nil {
					panic(err)
				}
			} else if p.Upload {
				if _, err := filter.OneTimeUpload([]string{filepath.Join(root, "up.txt")}); err != nil {
					panic(err)
				}
			}
			header := "**\x18B00000000000000\r\x8a\x11" // remote sz: the client must receive
			if p.Upload {
				header = "**\x18B0100000023be50\r\x8a\x11" // remote rz: the client must send
			}
			switch p.Veto {
			case "cancel":
				header += string(zmodemCancelFullSequence)
			case "cannot-open":
				header = "sz: cannot open /no/such: No such file\r\n" + header
			}
			enters, prompts := 0, 0
			if p.Shell {
				c2s.OnWrite = func(b []byte) {
					if len(b) == 1 && b[0] == '\r' {
						enters++
					}
				}
				vs.GoDaemon("remote-shell", func() {
					for {
						vs.WaitUntil("shell.enter", func() bool { return prompts < enters })
						prompts++
						s2c.Write([]byte(fmt.Sprintf("PROMPT-%d$ ", prompts)))
					}
				})
			}
			gotCancel := func() bool { return bytes.Contains(c2s.Written, zmodemCancelSubSequence) }
			c2sMark := 0
			fromClient := func() bool { return len(c2s.Written) > c2sMark }
			vs.GoDaemon("remote", func() {
				switch p.Typed {
				case "":
					s2c.Write([]byte("$ rz\r\n"))
					s2c.Write([]byte(header))
				default:
					// the shell: echoes the command line the wrapper typed, rz prints its header
					vs.WaitUntil("remote.typed", func() bool { return bytes.Contains(c2s.Written, []byte("rz\r")) })
					c2sMark = len(c2s.Written)
					if p.Typed == "merged" {
						s2c.Write([]byte("rz\r\n" + header))
					} else {
						s2c.Write([]byte("rz\r\n"))
						s2c.Write([]byte(header))
					}
				}
				if p.Veto != "" {
					return
				}
				say := func(b string) { s2c.Write([]byte(b)) }
				bye := func() { say("\r\nremote: transfer ended\r\n$ ") }
				switch p.Server {
				case "finish":
					vs.WaitUntilOrTimeout("remote.wait", 25*time.Second, func() bool { return fromClient() })
					for i := 0; i < 2 && !gotCancel(); i++ {
						say(fmt.Sprintf("**\x18B0900000000a87c\r\x8a data%d", i))
						vtime.Sleep(50 * time.Millisecond)
					}
					if gotCancel() {
						bye()
						return
					}
					say(zFinish)
					serverFinished = true
					vs.WaitUntilOrTimeout("remote.oo", 25*time.Second, func() bool { return gotCancel() || bytes.Contains(c2s.Written, []byte("OO")) })
					bye()
				case "cancel-before":
					say(string(zmodemCancelFullSequence))
					bye()
				case "cancel-before-split":
					// the transport cuts lrzsz's 10 x CAN + 10 x BS into two reads
					say(string(zmodemCancelFullSequence[:6]))
					say(string(zmodemCancelFullSequence[6:]))
					bye()
				case "cancel-before-8can":
					// another zmodem implementation: the classic 8 x CAN + 10 x BS attention string
					say(strings.Repeat("\x18", 8) + strings.Repeat("\x08", 10))
					bye()
				case "cancel-at-100ms":
					// the remote side gives up just as the product's 100 ms grace ends: before, while or after the helper is launched
					vtime.Sleep(100 * time.Millisecond)
					say(string(zmodemCancelFullSequence))
					bye()
				case "cancel-after":
					vs.WaitUntilOrTimeout("remote.wait", 25*time.Second, func() bool { return fromClient() })
					say(string(zmodemCancelFullSequence))
					bye()
				case "keeps":
					for i := 0; i < 20 && !gotCancel(); i++ {
						say(fmt.Sprintf("**\x18B0900000000a87c\r\x8a data%d", i))
						vtime.Sleep(100 * time.Millisecond)
					}
					bye()
				case "quiet":
					// says nothing more, whatever happens
				}
			})
			if p.CtrlCMs >= 0 {
				vs.GoDaemon("user", func() {
					vs.WaitUntil("user.header", func() bool { return bytes.Contains(term.Written, []byte("**\x18B0")) })
					vtime.Sleep(time.Duration(p.CtrlCMs) * time.Millisecond)
					keys.Write([]byte{0x03})
				})
			}
			// let the session run its course
			vs.WaitSettled(func() bool { return false }, 0)
			o.sessionStarted = helper.started > 0
			// the remote side has now been quiet; half a second (and a bit) later the terminal must be back
			vtime.Sleep(700 * time.Millisecond)
			if p.InputFirst {
				active := false
				vs.Peek(func() {
					if z := filter.zmodem.Load(); z != nil {
						active = z.isTransferringFiles()
					}
				})
				if active || filter.IsTransferringFiles() {
					o.inputFirst = "session still active"
				} else {
					mark := len(c2s.Written)
					want := ""
					for _, tok := range c05AfterSessionInput {
						keys.Write([]byte(tok))
						want += tok
						vs.WaitSettled(func() bool { return false }, 0)
						vtime.Sleep(50 * time.Millisecond)
					}
					vs.WaitSettled(func() bool { return len(c2s.Written) >= mark+len(want) }, 100)
					if got := string(c2s.Written[mark:]); got != want {
						o.inputFirst = fmt.Sprintf("after the zmodem session ended (remote side silent since) the user typed %q in separate reads and the remote side received %q", want, got)
					} else {
						o.inputFirst = "ok"
					}
				}
			}
			s2c.Write([]byte("probe-out-1\r\n"))
			vtime.Sleep(700 * time.Millisecond)
			keys.Write([]byte("probe-in"))
			s2c.Write([]byte("probe-out-2\r\n"))
			vs.WaitSettled(func() bool {
				return bytes.Contains(term.Written, []byte("probe-out-2")) && bytes.Contains(c2s.Written, []byte("probe-in"))
			}, 300)
			o.term, o.c2s = term.Written, c2s.Written
			o.remoteCancelled = bytes.Contains(s2c.Written, zmodemCancelSubSequence)
			o.probe1 = bytes.Count(term.Written, []byte("probe-out-1"))
			o.probe2 = bytes.Count(term.Written, []byte("probe-out-2"))
			o.probeIn = bytes.Count(c2s.Written, []byte("probe-in"))
			o.enters = enters
			o.promptsShown = bytes.Count(term.Written, []byte("PROMPT-"))
			o.helperStarts = helper.started
			for _, c := range helper.cmds {
				if !c.Exited {
					o.helperLeft++
				}
			}
			vs.Peek(func() {
				if z := filter.zmodem.Load(); z != nil {
					o.stillTransfering = z.isTransferringFiles()
				}
			})
		})
		// oracle
		switch {
		case len(s.Crash) > 0:
			violation = "panic: " + s.CrashString()
		case s.Horizon:
			violation = "horizon reached: the session never settles"
		case s.Deadlock:
			violation = "deadlock"
		case p.Veto != "" && o.helperStarts > 0:
			violation = fmt.Sprintf("a header accompanied by %s started a session (helper launched)", p.Veto)
		case p.Typed != "" && p.Veto == "" && s.Stall == 0 && o.helperStarts == 0:
			// (a whole-process stall of seconds may let the 3 s in which the wrapper waits for its rz run out: then the dialog is right)
			violation = fmt.Sprintf("the wrapper typed rz itself; its echo and rz's start header arrived (%s): no session was started, the remote rz is left waiting (the remote side received %q)", p.Typed, clipStr(string(o.c2s), 60))
		case p.InputFirst && o.inputFirst != "ok" && o.inputFirst != "session still active" && o.inputFirst != "":
			violation = o.inputFirst
		case strings.HasPrefix(p.Server, "cancel-before") && p.Veto == "" && p.CtrlCMs < 0 && s.Stall == 0 && o.helperStarts > 0:
			// (header and cancel are written back to back: the cancel is there long before the 100 ms the product waits)
			violation = "the remote side cancelled before the helper was started, and the helper was launched all the same"
		case strings.HasPrefix(p.Server, "cancel-before") && p.Veto == "" && p.CtrlCMs < 0 && s.Stall == 0 && !bytes.Contains(o.term, []byte("remote: transfer ended")):
			// (without a Ctrl-C: after one, output is discarded until the remote side has been quiet, by design)
			violation = "what the remote side printed after cancelling (before any helper ran) never reached the terminal"
		case p.Shell && s.Stall == 0 && o.promptsShown != o.enters:
			violation = fmt.Sprintf("the remote shell answered %d Enter(s) with a prompt, %d of them reached the terminal (the first output after the session is swallowed)", o.enters, o.promptsShown)
		case o.helperLeft > 0:
			violation = fmt.Sprintf("%d local helper process(es) still running after the session ended and everything settled: never told to stop nor killed", o.helperLeft)
		case o.probeIn != 1:
			violation = fmt.Sprintf("typed input reached the remote side %d times after the remote had been quiet for 0.7 s and 1.4 s (input is still being discarded)", o.probeIn)
		case o.probe2 != 1:
			violation = fmt.Sprintf("remote output reached the terminal %d times 1.4 s after the session ended (still swallowed)", o.probe2)
		case o.probe1 != 1:
			violation = fmt.Sprintf("remote output printed after 0.7 s of quiet reached the terminal %d times (swallowed beyond the half second)", o.probe1)
		}
		if violation == "" && p.Veto == "" {
			// the helper was launched (or could not be) and then the local side gave up on its own
			needCancel := o.helperStarts > 0 && (p.Helper == "missing" || p.Helper == "exit1")
			if needCancel && !bytes.Contains(o.c2s, zmodemCancelSubSequence) && p.Server != "finish" && !o.remoteCancelled {
				violation = "the local side gave up but the remote side was never sent the cancel sequence"
			}
		}
		outcome = fmt.Sprintf("helperStarts=%d probe=%d/%d/%d cancelSent=%v", o.helperStarts, o.probe1, o.probe2, o.probeIn, bytes.Contains(o.c2s, zmodemCancelSubSequence))
		if p.InputFirst {
			outcome += " inputFirst=" + firstWords(o.inputFirst, 3)
		}
		res := &vs.ExecResult{Sched: s, Outcome: outcome, Violation: violation}
		if violation != "" {
			pfx := "c19"
			if p.InputFirst {
				pfx = "c05:zmodem-history"
			}
			res.Signature = fmt.Sprintf(pfx+":helper=%s:server=%s:ctrlc=%v:%s", p.Helper+p.Typed, p.Server, p.CtrlCMs >= 0, lineNoRe.ReplaceAllString(firstWords(violation, 9), ""))
		}
		return res
	}
}

func c19Run(j vs.Job) *vs.JobResult {
	var p c19Params
	j.Decode(&p)
	r := &vs.JobResult{}
	exec := c19Exec(p)
	if j.Replay != nil {
		x := exec(j.Replay.Choices, nil, true)
		r.Notes = append(r.Notes, x.Sched.Trace...)
		r.Notes = append(r.Notes, "outcome: "+x.Outcome)
		if x.Violation != "" {
			r.Violate(x.Signature, x.Violation, nil)
		}
		return r
	}
	if p.Shard == 0 {
		n, err := vs.DeterminismCheck(exec)
		r.Replayed += int64(n)
		if err != "" {
			r.ToolErr = err
			return r
		}
	}
	st := vs.NewStats()
	e := &vs.Explorer{Exec: exec, Budget: vs.Budget{Total: p.Bound}, Shard: p.Shard, NShards: p.NShards, St: st,
		Known: func(sig string) bool { return vs.IsKnown("C19", sig) }}
	if j.Deadline > 0 {
		e.Deadline = time.Unix(j.Deadline, 0)
	}
	e.Explore()
	r.AddStats(st)
	r.Nontrivial = int64(len(st.Outcomes))
	for i := range r.Violations {
		r.Violations[i].Desc = fmt.Sprintf("%+v: %s", p, r.Violations[i].Desc)
	}
	return r
}

func init() {
	vs.Register(&vs.Check{
		ID:    "C19",
		Level: "model_checking",
		Rule: "real filter with zmodem enabled x helper behaviour {missing, exits 0, exits 1, runs 0/1/3 chunks then finishes, never outputs, outputs after the remote finished} x remote behaviour {finishes, cancels before the helper starts (lrzsz cancel string in one read, cut into two reads, the 8 x CAN form, and exactly when the 100 ms grace ends) / after it started, keeps sending 2 s, quiet} x Ctrl-C {none, 0 ms, 150 ms, 1 s after the header} x upload/download, " +
			"plus headers vetoed by a cancel sequence or 'cannot open', and uploads whose rz the wrapper typed itself (echo and header in one read / in two); all schedules within 1 (quick) / 2 (thorough) deviations of the default one, a timer landing first being one of them; then a transparency probe 0.7 s and 1.4 s after the remote went quiet",
		Assumptions: []string{"the local rz/sz is a model (vexec): it leaves when killed or sent the cancel sequence, real lrzsz is not installed", "the remote rz/sz is scripted; after a cancel it prints a line and a prompt except in the 'quiet' behaviour"},
		TraceNote:   "explored directly on the implementation; the number counts executions replayed from recorded choice lists",
		QuickBudget: 110, ThoroughBudget: 1500,
		Jobs: func(tier string) []vs.Job {
			var jobs []vs.Job
			bound := 1
			if tier == "thorough" {
				bound = 2
			}
			for _, up := range []bool{false, true} {
				for _, h := range []string{"missing", "exit0", "exit1", "run0", "run1", "run3", "silent", "late"} {
					for _, srv := range []string{"finish", "cancel-before", "cancel-before-split", "cancel-before-8can", "cancel-at-100ms", "cancel-after", "keeps", "quiet"} {
						for _, cc := range []int{-1, 0, 150, 1000} {
							if cc > 0 && tier != "thorough" && !(h == "run3" || h == "silent" || h == "missing") {
								continue
							}
							p := c19Params{Upload: up, Helper: h, Server: srv, CtrlCMs: cc, Bound: bound, NShards: 1}
							jobs = append(jobs, vs.MkJob(fmt.Sprintf("up=%v helper=%s server=%s ctrlc=%d b%d", up, h, srv, cc, bound), p))
						}
					}
				}
				if up {
					for _, typed := range []string{"merged", "split"} {
						for _, h := range []string{"run1", "missing", "silent"} {
							for _, srv := range []string{"finish", "cancel-after", "quiet"} {
								jobs = append(jobs, vs.MkJob(fmt.Sprintf("typed=%s helper=%s server=%s b%d", typed, h, srv, bound), c19Params{Upload: true, Helper: h, Server: srv, CtrlCMs: -1, Typed: typed, Bound: bound, NShards: 1}))
							}
						}
					}
				}
				for _, veto := range []string{"cancel", "cannot-open"} {
					if veto == "cancel" {
						// the remote side is an interactive shell that answers the hand-back Enter with a prompt
						for _, h := range []string{"run1", "exit1", "silent"} {
							for _, srv := range []string{"finish", "cancel-after", "keeps"} {
								for _, cc := range []int{-1, 150} {
									jobs = append(jobs, vs.MkJob(fmt.Sprintf("shell up=%v helper=%s server=%s ctrlc=%d b%d", up, h, srv, cc, bound), c19Params{Upload: up, Helper: h, Server: srv, CtrlCMs: cc, Shell: true, Bound: bound, NShards: 1}))
								}
							}
						}
					}
					jobs = append(jobs, vs.MkJob(fmt.Sprintf("up=%v veto=%s", up, veto), c19Params{Upload: up, Helper: "run1", Server: "finish", CtrlCMs: -1, Veto: veto, Bound: bound, NShards: 1}))
				}
			}
			return jobs
		},
		Run: c19Run,
	})
	_ = strings.Contains
}
