package trzsz

// C04 — escape coding is reversible and keeps protected bytes off the wire (DESIGN.md §3 C04).
// Exhaustive small-scope enumeration on escapeData / unescapeData / escapeReader / escapeWriter /
// escapeCharsToTable, plus a wire monitor on binary uploads in the world.

import (
	"bytes"
	"encoding/json"
	"fmt"
	"io"
	"reflect"
	"sort"
	"strings"

	vs "github.com/trzsz/trzsz-go/zzverif/vsched"
)

type c04Params struct {
	Part  string `json:"part"` // tables | stream | zstd | world
	Shard int    `json:"shard"`
	N     int    `json:"n"`
}

type c04Pair struct{ b, c byte }

// c04Escape calls the product's escapeData through reflection so that the check still builds (and
// still judges the behaviour) when a change adds trailing parameters to it (a scratch buffer, say).
func c04Escape(data []byte, table *escapeTable) []byte {
	f := reflect.ValueOf(escapeData)
	args := []reflect.Value{reflect.ValueOf(data), reflect.ValueOf(table)}
	for f.Type().NumIn() > len(args) {
		args = append(args, reflect.Zero(f.Type().In(len(args))))
	}
	return f.Call(args)[0].Bytes()
}

func latin1(b byte) string { return string(rune(b)) }

// c04TableJSON renders a table the way a server announces it.
func c04TableJSON(pairs []c04Pair) string {
	var items []string
	for _, p := range pairs {
		k, _ := json.Marshal(latin1(p.b))
		v, _ := json.Marshal(latin1(escapeLeaderByte) + latin1(p.c))
		items = append(items, "["+string(k)+","+string(v)+"]")
	}
	return "[" + strings.Join(items, ",") + "]"
}

// builtin tables, round-tripped through JSON exactly as the client receives them
func c04Builtin(all bool) (*escapeTable, []c04Pair) {
	js, _ := json.Marshal(getEscapeChars(all))
	var t escapeTable
	if err := json.Unmarshal(js, &t); err != nil {
		panic(err)
	}
	var pairs []c04Pair
	for b := 0; b < 256; b++ {
		if c := t.escapeCodes[b]; c != nil {
			pairs = append(pairs, c04Pair{byte(b), *c})
		}
	}
	return &t, pairs
}

func c04Payloads(maxLen int) [][]byte {
	var out [][]byte
	for b := 0; b < 256; b++ {
		out = append(out, []byte{byte(b)})
	}
	alpha := []byte{0xee, '~', '1', 'A', 0x0d, 0x18, 'x'}
	var rec func(cur []byte)
	rec = func(cur []byte) {
		if len(cur) > 1 || len(cur) == 0 {
			out = append(out, append([]byte(nil), cur...))
		}
		if len(cur) == maxLen {
			return
		}
		for _, a := range alpha {
			rec(append(cur, a))
		}
	}
	rec(nil)
	return out
}

// chunkReader feeds fixed chunks, one per Read.
type chunkReader struct{ chunks [][]byte }

func (c *chunkReader) Read(p []byte) (int, error) {
	for len(c.chunks) > 0 && len(c.chunks[0]) == 0 {
		c.chunks = c.chunks[1:]
	}
	if len(c.chunks) == 0 {
		return 0, io.EOF
	}
	n := copy(p, c.chunks[0])
	c.chunks[0] = c.chunks[0][n:]
	return n, nil
}

// c04Stream reads the escaped stream, cut at split, through the real escapeReader with output
// buffers of size bufSize, and returns what came out.
func c04Stream(table *escapeTable, escaped []byte, split, bufSize int) ([]byte, error) {
	r := newEscapeReader(table, &chunkReader{chunks: [][]byte{append([]byte(nil), escaped[:split]...), append([]byte(nil), escaped[split:]...)}})
	var out []byte
	buf := make([]byte, bufSize)
	for i := 0; i < 10000; i++ {
		n, err := r.Read(buf)
		out = append(out, buf[:n]...)
		if err == io.EOF {
			return out, nil
		}
		if err != nil {
			return out, err
		}
	}
	return out, fmt.Errorf("reader does not terminate")
}

func c04CheckTable(r *vs.JobResult, name string, table *escapeTable, pairs []c04Pair, payloads [][]byte, streaming bool) {
	domain := map[byte]bool{}
	codes := map[byte]bool{}
	for _, p := range pairs {
		domain[p.b] = true
		codes[p.c] = true
	}
	for xi, x := range payloads {
		r.Execs++
		enc := c04Escape(x, table)
		if xi == len(payloads)-1 && len(r.Samples) < 3 {
			r.Samples = append(r.Samples, fmt.Sprintf("table %s payload %q -> escaped %q (streaming=%v: every split point x output buffer size)", clipStr(name, 80), x, enc, streaming))
		}
		// protected bytes never appear in the encoding
		for _, e := range enc {
			if domain[e] && e != escapeLeaderByte {
				r.Violate("c04:protected:"+name, fmt.Sprintf("table %s: encode(%q) = %q contains the protected byte %#x", name, x, enc, e), nil)
				return
			}
		}
		// the leader only ever appears followed by a defined code
		for i := 0; i < len(enc); i++ {
			if enc[i] == escapeLeaderByte {
				if i+1 >= len(enc) || !codes[enc[i+1]] {
					r.Violate("c04:leader:"+name, fmt.Sprintf("table %s: encode(%q) = %q has a leader byte without a defined code", name, x, enc), nil)
					return
				}
				i++
			}
		}
		dec, rem, err := unescapeData(enc, table, nil)
		if err != nil || len(rem) != 0 || !bytes.Equal(dec, x) {
			r.Violate("c04:roundtrip:"+name, fmt.Sprintf("table %s: decode(encode(%q)) = %q rem %q err %v", name, x, dec, rem, err), nil)
			return
		}
		if len(x) > 1 {
			r.Nontrivial++
		}
		if !streaming {
			continue
		}
		for split := 0; split <= len(enc); split++ {
			for bs := 1; bs <= len(x)+1; bs++ {
				r.Execs++
				out, err := c04Stream(table, enc, split, bs)
				if err != nil || !bytes.Equal(out, x) {
					r.Violate("c04:stream:"+name, fmt.Sprintf("table %s: payload %q escaped %q split at %d, output buffer %d: reader gave %q err %v", name, x, enc, split, bs, out, err), nil)
					return
				}
			}
		}
	}
	// an escape pair the table does not define is rejected, never guessed
	for c := 0; c < 256; c++ {
		if codes[byte(c)] {
			continue
		}
		r.Execs++
		_, _, err := unescapeData([]byte{'a', escapeLeaderByte, byte(c), 'b'}, table, nil)
		if err == nil {
			r.Violate("c04:undefined:"+name, fmt.Sprintf("table %s: the undefined pair (leader, %#x) was accepted", name, c), nil)
			return
		}
		if streaming {
			if out, err := c04Stream(table, []byte{'a', escapeLeaderByte, byte(c), 'b'}, 2, 4); err == nil {
				r.Violate("c04:undefined-stream:"+name, fmt.Sprintf("table %s: the streaming reader accepted the undefined pair (leader, %#x) and produced %q", name, c, out), nil)
				return
			}
		}
	}
}

func c04Run(j vs.Job) *vs.JobResult {
	var p c04Params
	j.Decode(&p)
	r := &vs.JobResult{Outcomes: map[string]int64{}}
	defer func() {
		if e := recover(); e != nil {
			r.Violate("c04:panic", fmt.Sprintf("panic: %v", e), nil)
		}
	}()
	switch p.Part {
	case "builtin":
		for _, all := range []bool{false, true} {
			t, pairs := c04Builtin(all)
			for _, b := range c04Promised(all) {
				if t.escapeCodes[b] == nil {
					r.Violate(fmt.Sprintf("c04:promise:%v:%#x", all, b), fmt.Sprintf("the built-in table (-e=%v) does not protect %#x, which it promises to keep off the wire", all, b), nil)
				}
			}
			c04CheckTable(r, fmt.Sprintf("builtin(-e=%v)", all), t, pairs, c04Payloads(4), true)
		}
		// escapeWriter: any segmentation of the input gives the same stream; blocks: the usual payloads, every
		// 2-byte block, and every block of <= 3 bytes over an alphabet of UTF-8 lead/continuation bytes that
		// spell well-formed characters containing protected bytes (U+008D, U+041D "Н" = d0 9d, U+00D1 = c3 91, U+E0B0 = ee 82 b0)
		blocks := c04Payloads(3)
		for a := 0; a < 256; a++ {
			for b := 0; b < 256; b++ {
				blocks = append(blocks, []byte{byte(a), byte(b)})
			}
		}
		utf := []byte{0xc2, 0x8d, 0xd0, 0x9d, 0xc3, 0x91, 0xee, 0x82, 0xb0, 'x'}
		for _, a := range utf {
			for _, b := range utf {
				for _, c := range utf {
					blocks = append(blocks, []byte{a, b, c})
				}
			}
		}
		blocks = append(blocks, []byte("Привет, Наташа\n"), []byte("a\ue0b0b"), []byte("Ñ\u008d\u0090\u0091\u0093\u009d"))
		for _, all := range []bool{false, true} {
			t, _ := c04Builtin(all)
			for _, x := range blocks {
				for cut := 0; cut <= len(x); cut++ {
					var sink bytes.Buffer
					w := newEscapeWriter(t, nopWriteCloser{&sink})
					w.Write(x[:cut])
					w.Write(x[cut:])
					r.Execs++
					if !bytes.Equal(sink.Bytes(), c04Escape(x, t)) {
						r.Violate("c04:writer", fmt.Sprintf("escapeWriter(%q cut at %d) wrote %q, escapeData gives %q", x, cut, sink.Bytes(), c04Escape(x, t)), nil)
						if len(r.Violations) > 5 {
							return r
						}
					}
				}
			}
		}
	case "tables":
		// announced tables: the two mandatory entries plus up to two extra entries
		bs := []byte{0x00, 0x0d, 0x18, '1', 'A', 0x7e, 0xee, 0xff}
		cs := []byte{'1', 'A', 'B', 'C', 0xee, 0x00}
		var extras []c04Pair
		for _, b := range bs {
			for _, c := range cs {
				extras = append(extras, c04Pair{b, c})
			}
		}
		// what every usable table has: the leader itself escaped and '~' protected — with the built-in codes,
		// with the leader escaped by another code (the doubled leader is then undefined), and with the
		// doubled leader standing for '~'
		mandatories := [][]c04Pair{{{0xee, 0xee}, {0x7e, '1'}}, {{0xee, '0'}, {0x7e, '1'}}, {{0xee, '0'}, {0x7e, 0xee}}}
		type tbl struct{ mandatory, set []c04Pair }
		var sets []tbl
		for _, m := range mandatories {
			sets = append(sets, tbl{m, nil})
			for i := range extras {
				sets = append(sets, tbl{m, []c04Pair{extras[i]}})
				for k := i + 1; k < len(extras); k++ {
					sets = append(sets, tbl{m, []c04Pair{extras[i], extras[k]}})
				}
			}
		}
		payloads := c04Payloads(3)
		for si, ts := range sets {
			if si%p.N != p.Shard {
				continue
			}
			set := ts.set
			pairs := append(append([]c04Pair{}, ts.mandatory...), set...)
			js := c04TableJSON(pairs)
			var t escapeTable
			if err := json.Unmarshal([]byte(js), &t); err != nil {
				r.Outcomes["rejected"]++
				continue
			}
			// injective? (distinct bytes, distinct codes) — later entries overwrite earlier ones otherwise
			seenB, seenC := map[byte]bool{}, map[byte]bool{}
			inj := true
			for _, q := range pairs {
				if seenB[q.b] || seenC[q.c] {
					inj = false
				}
				seenB[q.b], seenC[q.c] = true, true
			}
			// a code must not itself be a protected byte (the leader's self-escape apart), or the table defeats its purpose
			for _, q := range pairs {
				if seenB[q.c] && q.c != escapeLeaderByte {
					inj = false
				}
			}
			name := js
			if inj {
				r.Outcomes["well-formed"]++
				c04CheckTable(r, name, &t, pairs, payloads, len(set) <= 1)
			} else {
				// accepted although not injective: the weaker oracle — no panic, and decode(encode) is the identity or an error
				r.Outcomes["accepted-non-injective"]++
				for _, x := range payloads {
					r.Execs++
					enc := c04Escape(x, &t)
					dec, rem, err := unescapeData(enc, &t, nil)
					_ = dec
					_ = rem
					_ = err
				}
			}
			if len(r.Violations) > 3 {
				break
			}
		}
	case "zstd":
		// the stack pipelineDecodeData builds: zstd reader over escape reader over chunked input
		for _, all := range []bool{false, true} {
			t, _ := c04Builtin(all)
			var payloads [][]byte
			allBytes := make([]byte, 256)
			for i := range allBytes {
				allBytes[i] = byte(i)
			}
			payloads = append(payloads, allBytes, genContent('E', 1, 3000), genContent('R', 2, 700), []byte{})
			payloads = append(payloads, c04Payloads(2)[256:]...)
			for _, x := range payloads {
				var comp bytes.Buffer
				zw, err := newZstdWriter(newEscapeWriter(t, nopWriteCloser{&comp}))
				if err != nil {
					r.ToolErr = err.Error()
					return r
				}
				zw.Write(x)
				zw.Close()
				enc := comp.Bytes()
				for _, e := range enc {
					if t.escapeCodes[e] != nil && e != escapeLeaderByte {
						r.Violate("c04:zstd-protected", fmt.Sprintf("compressed+escaped stream of %d bytes contains the protected byte %#x", len(x), e), nil)
					}
				}
				step := 1
				if len(enc) > 64 {
					step = len(enc) / 48
				}
				for split := 0; split <= len(enc); split += step {
					for _, bs := range []int{1, 2, 3, 7, 64, 32 * 1024} {
						r.Execs++
						zr, err := newZstdReader(newEscapeReader(t, &chunkReader{chunks: [][]byte{append([]byte(nil), enc[:split]...), append([]byte(nil), enc[split:]...)}}))
						if err != nil {
							r.ToolErr = err.Error()
							return r
						}
						var out []byte
						buf := make([]byte, bs)
						var rerr error
						for k := 0; k < 1<<20; k++ {
							n, e := zr.Read(buf)
							out = append(out, buf[:n]...)
							if e != nil {
								if e != io.EOF {
									rerr = e
								}
								break
							}
						}
						zr.Close()
						if rerr != nil || !bytes.Equal(out, x) {
							r.Violate("c04:zstd-stream", fmt.Sprintf("-e=%v payload of %d bytes, escaped %d bytes split at %d, buffer %d: got %d bytes err %v", all, len(x), len(enc), split, bs, len(out), rerr), nil)
							return r
						}
						r.Nontrivial++
					}
				}
			}
		}
	case "world":
		// a binary upload whose buffer size adapts downwards (one ack arrives 2.3 s late, each ack in turn): blocks queued at
		// the old size are sent in pieces; the payload must still arrive unchanged
		for k := 1; k <= 60; k++ {
			wp := wParams{Dir: "up", Binary: true, EscapeAll: true, Tree: "one:R:200000", Compress: 2, Bufsize: 16384, MsgFaults: []wMsgFault{{"s2c", k, "slow:2300"}}}
			w, res := runWorld(wp, vs.Config{}, nil, nil, nil)
			r.Execs++
			r.Nontrivial++
			if v := c01Oracle(w, res, true); v != "" {
				r.Violate("c04:world-late-ack:"+firstWords(v, 8), wp.String()+": "+v, nil)
				break
			}
		}
		// wire monitor: nothing the uploading client writes after its ACT contains a protected byte
		for _, esc := range []bool{false, true} {
			for _, tree := range []string{"one:E:3079", "small3", "one:R:21000", "one:U:300", "one:U:3000"} {
				for _, comp := range []int{0, 1, 2} {
					for _, proto := range []int{0, 3, 2, 1} {
						wp := wParams{Dir: "up", Binary: true, EscapeAll: esc, Tree: tree, Compress: comp, Protocol: proto}
						w, res := runWorld(wp, vs.Config{}, nil, nil, nil)
						r.Execs++
						r.Nontrivial++
						if v := c01Oracle(w, res, true); v != "" {
							r.Violate("c04:world:"+wp.String(), wp.String()+": "+v, nil)
							continue
						}
						sent := w.c2s[0].Written
						i := bytes.Index(sent, []byte("#ACT:"))
						nl := bytes.IndexByte(sent[i:], '\n')
						body := sent[i+nl+1:]
						if !bytes.Contains(body, []byte("#DATA:")) {
							r.Violate("c04:world-vacuous", wp.String()+": no binary data was sent", nil)
						}
						var bad []string
						for _, b := range c04Promised(esc) {
							if bytes.IndexByte(body, b) >= 0 {
								bad = append(bad, fmt.Sprintf("%#x", b))
							}
						}
						sort.Strings(bad)
						if len(bad) > 0 {
							r.Violate("c04:world-protected:"+wp.String(), fmt.Sprintf("%s: protected bytes %v occur in what the uploading client wrote after its ACT", wp.String(), bad), nil)
						}
					}
				}
			}
		}
	}
	return r
}

// c04Promised: the bytes the tables promise to keep off the wire — '~' always, and with -e also CR,
// DLE, XON, XOFF, CAN, ESC, GS and their 8-bit forms.
func c04Promised(all bool) []byte {
	if !all {
		return []byte{0x7e}
	}
	return []byte{0x7e, 0x0d, 0x10, 0x11, 0x13, 0x18, 0x1b, 0x1d, 0x8d, 0x90, 0x91, 0x93, 0x9d}
}

type nopWriteCloser struct{ w io.Writer }

func (n nopWriteCloser) Write(p []byte) (int, error) { return n.w.Write(p) }
func (n nopWriteCloser) Close() error                { return nil }

func init() {
	vs.Register(&vs.Check{
		ID:    "C04",
		Level: "exploration",
		Rule: "both built-in tables (as the client decodes them from JSON) and every announced table made of the two mandatory entries (leader and '~', with the built-in codes, with the leader escaped as (ee,'0'), and with (ee,ee) standing for '~') plus <= 2 extra entries over bytes {00,0d,18,'1','A',7e,ee,ff} x codes {'1','A','B',ee,00}; payloads: all 256 single bytes and every string of length <= 4 (built-in) / <= 3 over {ee,'~','1','A',0d,18,'x'}; " +
			"for built-in and single-extra tables every split point of the escaped stream x every output buffer size through the real escapeReader; every undefined (leader, code) pair; the zstd+escape reader stack over 6 buffer sizes and ~48 split points; binary uploads in the world with a wire monitor; a binary upload with each ack in turn 2.3 s late (the buffer size adapts downwards and queued blocks are split)",
		Assumptions: []string{"tables that escapeCharsToTable accepts although they are not injective, or whose codes are themselves protected bytes, are only checked for 'no panic'"},
		QuickBudget: 100, ThoroughBudget: 600, DiedIsViolation: true,
		Jobs: func(tier string) []vs.Job {
			jobs := []vs.Job{vs.MkJob("builtin", c04Params{Part: "builtin"}), vs.MkJob("zstd", c04Params{Part: "zstd"}), vs.MkJob("world", c04Params{Part: "world"})}
			n := 12
			for s := 0; s < n; s++ {
				jobs = append(jobs, vs.MkJob(fmt.Sprintf("tables %d/%d", s, n), c04Params{Part: "tables", Shard: s, N: n}))
			}
			return jobs
		},
		Run: c04Run,
	})
}
