package trzsz

// C16 — protocol lines survive the noise tmux and the Windows console add (DESIGN.md §3 C16).
// Exhaustive small-scope enumeration: payloads over the protocol alphabet x every position and
// multiplicity <= 2 of each documented kind of noise x chunkings with <= 2 cuts, through the real
// recvLine (junk-tolerant path with stripTmuxStatusLine, and the Windows-console path).

import (
	"bytes"
	"fmt"
	"time"

	vs "github.com/trzsz/trzsz-go/zzverif/vsched"
)

type c16Params struct {
	Mode  string `json:"mode"` // tmux | win
	Pairs bool   `json:"pairs"`
	Shard int    `json:"shard"`
	N     int    `json:"n"`
}

type c16Noise struct {
	name string
	// apply inserts the noise into line at position pos (0..len(line)); ok=false if it does not apply there
	apply func(line []byte, pos int, markerEnd int) (out []byte, ok bool)
}

func ins(line []byte, pos int, s string) []byte {
	out := append([]byte(nil), line[:pos]...)
	out = append(out, s...)
	return append(out, line[pos:]...)
}

var c16Tmux = []c16Noise{
	{"crlf-wrap", func(l []byte, p, m int) ([]byte, bool) { return ins(l, p, "\r\n"), p > 0 }},
	{"text-before-marker", func(l []byte, p, m int) ([]byte, bool) { return ins(l, 0, "user@host:~$ tsz x \x1b[0m"), p == 0 }},
	{"older-line-before-marker", func(l []byte, p, m int) ([]byte, bool) { return ins(l, 0, "#SUCC:old#DATA:junk"), p == 0 }},
	// the reader took over the stream in the middle of a status refresh: its second half lies in front of the marker
	{"status-tail-before-marker", func(l []byte, p, m int) ([]byte, bool) { return ins(l, 0, "host 12:00\x1bP=more status\x1b\\"), p == 0 }},
	{"status-line", func(l []byte, p, m int) ([]byte, bool) {
		return ins(l, p, "\x1bP=1s\x1b\\\x1b[?25l\x1bP=2s\x1b\\"), false // placeholder, replaced below
	}},
}

func init() {
	// one complete tmux status-line control string: ESC P = ... ESC P = ... ESC \
	c16Tmux[4] = c16Noise{"status-line", func(l []byte, p, m int) ([]byte, bool) {
		return ins(l, p, "\x1bP=1;2;3host 12:00\x1bP=more status\x1b\\"), p >= m
	}}
}

var c16Win = []c16Noise{
	{"colour", func(l []byte, p, m int) ([]byte, bool) { return ins(l, p, "\x1b[01;32m"), true }},
	{"erase-line", func(l []byte, p, m int) ([]byte, bool) { return ins(l, p, "\x1b[K"), true }},
	{"cursor-forward", func(l []byte, p, m int) ([]byte, bool) { return ins(l, p, "\x1b[29C"), true }},
	{"padding", func(l []byte, p, m int) ([]byte, bool) { return ins(l, p, " \t \x08"), true }},
	{"newline-padding", func(l []byte, p, m int) ([]byte, bool) { return ins(l, p, "\r\n"), true }},
	{"show-hide-cursor", func(l []byte, p, m int) ([]byte, bool) { return ins(l, p, "\x1b[?25h\x1b[?25l"), true }},
	// the console wraps: CRLF, a cursor move, and the previous character printed again
	{"wrap-reprint", func(l []byte, p, m int) ([]byte, bool) {
		if p == 0 {
			return nil, false
		}
		return ins(l, p, "\r\n\x1b[25;119H"+string(l[p-1])), true
	}},
	{"wrap-reprint-lf", func(l []byte, p, m int) ([]byte, bool) {
		if p == 0 {
			return nil, false
		}
		return ins(l, p, "\x1b[30;1H\x1b[?25l\n\x1b[29;120H"+string(l[p-1])), true
	}},
	// the next character is first shown at the home position, then the cursor moves and it is printed again
	{"home-then-reprint", func(l []byte, p, m int) ([]byte, bool) {
		if p >= len(l) {
			return nil, false
		}
		return ins(l, p, "\x08\x1b[?25h\x1b[?25l\x1b[H"+string(l[p])+"\x1b[60;238H\x1b[?25h\x1b[?25l\r\n"), true
	}},
	// as above, but what is shown at the home position is a different character
	{"home-other-then-print", func(l []byte, p, m int) ([]byte, bool) {
		if p >= len(l) {
			return nil, false
		}
		other := "b"
		if l[p] == 'b' {
			other = "c"
		}
		return ins(l, p, "\x08\x1b[?25h\x1b[?25l\x1b[H"+other+"\x1b[60;238H\x1b[?25h\x1b[?25l\r\n"), true
	}},
	// a cursor move without a line break does not duplicate anything
	{"move-no-newline", func(l []byte, p, m int) ([]byte, bool) {
		return ins(l, p, "\x1b[199X\x1b[199C\x1b[60;40H\x1b[?25h\x1b[?25l"), true
	}},
}

func c16Payloads(maxLen int) []string {
	alpha := []byte{'A', '8', '=', '/', '+'}
	out := []string{""}
	var rec func(cur []byte)
	rec = func(cur []byte) {
		if len(cur) > 0 {
			out = append(out, string(cur))
		}
		if len(cur) == maxLen {
			return
		}
		for _, a := range alpha {
			rec(append(cur, a))
		}
	}
	rec(nil)
	return out
}

// c16Read feeds the chunks and reads one line through the real recvLine.
func c16Read(mode string, typ string, chunks [][]byte) ([]byte, error) {
	if mode != "win" {
		// junk tolerance is switched on in two ways: by the negotiated configuration (every line after the
		// handshake: the caller passes false) and by the caller (the handshake lines); both must recover the line
		got, err := c16ReadWith(mode, typ, chunks, true, false)
		if err != nil {
			return got, err
		}
		got2, err2 := c16ReadWith(mode, typ, chunks, false, true)
		if err2 != nil {
			return got2, err2
		}
		if !bytes.Equal(got, got2) {
			return got, fmt.Errorf("junk tolerance switched on by the configuration gives %q, switched on by the caller %q", got, got2)
		}
		return got, nil
	}
	return c16ReadWith(mode, typ, chunks, false, false)
}

func c16ReadWith(mode string, typ string, chunks [][]byte, configJunk, callerJunk bool) ([]byte, error) {
	t := newTransfer(nopWriteCloser{&bytes.Buffer{}}, nil, false, nil)
	if mode == "win" {
		t.windowsProtocol = true
		t.transferConfig.Newline = "!\n"
	} else {
		t.transferConfig.TmuxOutputJunk = configJunk
	}
	for _, c := range chunks {
		t.buffer.addBuffer(c)
	}
	fired := make(chan time.Time, 1)
	fired <- time.Time{}
	return t.recvLine(typ, callerJunk, fired)
}

func c16Run(j vs.Job) *vs.JobResult {
	var p c16Params
	j.Decode(&p)
	r := &vs.JobResult{Outcomes: map[string]int64{}}
	noises := c16Tmux
	term := "\n"
	if p.Mode == "win" {
		noises = c16Win
		term = "!"
	}
	maxLen := 3
	if p.Pairs {
		maxLen = 2
	}
	payloads := c16Payloads(maxLen)
	deadline := time.Unix(j.Deadline, 0)
	k := 0
	body := func() {
		for _, typ := range []string{"SUCC", "DATA"} {
			for _, pl := range payloads {
				clean := []byte("#" + typ + ":" + pl)
				markerEnd := len(typ) + 2
				// all ways to insert one (or two) noises
				type variant struct {
					line []byte
					desc string
				}
				var variants []variant
				variants = append(variants, variant{append([]byte(nil), clean...), "no noise"})
				for _, n1 := range noises {
					for p1 := 0; p1 <= len(clean); p1++ {
						l1, ok := n1.apply(clean, p1, markerEnd)
						if !ok {
							continue
						}
						if !p.Pairs {
							variants = append(variants, variant{l1, fmt.Sprintf("%s@%d", n1.name, p1)})
							continue
						}
						// second noise at a position of the original line at or after the first (inserted after it)
						for _, n2 := range noises {
							for p2 := p1; p2 <= len(clean); p2++ {
								l2, ok := n2.apply(clean, p2, markerEnd)
								if !ok {
									continue
								}
								// compose: apply n2 first at p2 (later position), then n1 at p1
								l12, ok := n1.apply(l2, p1, markerEnd)
								if !ok || (p1 == p2 && (n1.name == n2.name)) {
									continue
								}
								if p1 == p2 {
									continue // two noises at the very same spot interact in ways the console does not produce
								}
								variants = append(variants, variant{l12, fmt.Sprintf("%s@%d+%s@%d", n1.name, p1, n2.name, p2)})
							}
						}
					}
				}
				for _, v := range variants {
					if k++; k%p.N != p.Shard {
						continue
					}
					full := append(append([]byte(nil), v.line...), term...)
					if p.Mode == "win" && k%2 == 0 {
						full = append(full, '\n') // the terminator with and without LF
					}
					// chunkings: whole, every single cut, and (single noise only) every pair of cuts
					try := func(cuts []int) bool {
						var chunks [][]byte
						prev := 0
						for _, c := range cuts {
							chunks = append(chunks, full[prev:c])
							prev = c
						}
						chunks = append(chunks, full[prev:])
						got, err := c16Read(p.Mode, typ, chunks)
						r.Execs++
						if err != nil || !bytes.Equal(got, clean) {
							r.Violate("c16:"+p.Mode+":"+v.desc[:indexOr(v.desc, '@')], fmt.Sprintf("%s: clean line %q, noise %s, on the wire %q cut at %v: got %q err %v", p.Mode, clean, v.desc, full, cuts, got, err), nil)
							return false
						}
						return true
					}
					ok := try(nil)
					for c := 1; c < len(full) && ok; c++ {
						ok = try([]int{c})
					}
					if !p.Pairs && ok {
						for a := 1; a < len(full) && ok; a++ {
							for b := a + 1; b < len(full) && ok; b += 3 {
								ok = try([]int{a, b})
							}
						}
					}
					// Ctrl-C anywhere in the incoming line interrupts
					if ok && !p.Pairs {
						for c := 0; c < len(v.line); c++ {
							withC := append(append(append([]byte(nil), full[:c]...), 0x03), full[c:]...)
							_, err := c16Read(p.Mode, typ, [][]byte{withC})
							r.Execs++
							if err == nil || err.Error() != "Interrupted" {
								r.Violate("c16:"+p.Mode+":ctrl-c", fmt.Sprintf("%s: Ctrl-C at offset %d of %q did not interrupt (err %v)", p.Mode, c, full, err), nil)
								break
							}
						}
					}
					r.Nontrivial++
					if len(r.Samples) < 3 && r.Nontrivial%211 == 5 {
						r.Samples = append(r.Samples, fmt.Sprintf("%s: clean %q, noise %s, on the wire %q, every single cut", p.Mode, clean, v.desc, full))
					}
					if len(r.Violations) >= 6 {
						return
					}
				}
				if j.Deadline > 0 && time.Now().After(deadline) {
					r.Capped = "deadline"
					return
				}
			}
		}
	}
	s := vs.Run(vs.Config{NoRecord: true, MaxSteps: 1 << 50}, nil, nil, body)
	r.Steps = int64(s.Steps)
	if len(s.Crash) > 0 {
		r.Violate("c16:panic", "panic: "+s.CrashString(), nil)
	}
	if s.Deadlock {
		r.ToolErr = "sequential harness blocked"
	}
	return r
}

func indexOr(s string, c byte) int {
	for i := 0; i < len(s); i++ {
		if s[i] == c {
			return i
		}
	}
	return len(s)
}

func init() {
	vs.Register(&vs.Check{
		ID:    "C16",
		Level: "exploration",
		Rule: "payloads '#SUCC:'/'#DATA:' + every string of length <= 3 over {A,8,=,/,+}; noise inserted at every position, one at a time (with every single cut and every third pair of cuts of the result, and Ctrl-C at every offset) and two at a time at different positions (payload length <= 2, every single cut); " +
			"tmux: CRLF wrap, prompt text and older lines before the marker, a complete status-line control string after the marker; Windows console: colour, erase-line, cursor-forward, padding, CRLF, cursor show/hide, wrap with the previous character reprinted (CRLF and LF forms), character shown at home then reprinted, other character at home then the real one, cursor move without line break; '!' terminator with and without LF",
		Assumptions: []string{"the noise grammar is the documented one (the patterns of the existing tests and code comments); two noises at the very same position and status-line strings inside the marker are outside it"},
		QuickBudget: 100, ThoroughBudget: 900, DiedIsViolation: true,
		Jobs: func(tier string) []vs.Job {
			var jobs []vs.Job
			for _, mode := range []string{"tmux", "win"} {
				n := 6
				for s := 0; s < n; s++ {
					jobs = append(jobs, vs.MkJob(fmt.Sprintf("%s single %d/%d", mode, s, n), c16Params{Mode: mode, Shard: s, N: n}))
				}
				np := 2
				if mode == "win" {
					np = 8
				}
				for s := 0; s < np; s++ {
					jobs = append(jobs, vs.MkJob(fmt.Sprintf("%s pairs %d/%d", mode, s, np), c16Params{Mode: mode, Pairs: true, Shard: s, N: np}))
				}
			}
			return jobs
		},
		Run: c16Run,
	})
}
