package trzsz

// C18 — pausing and resuming never corrupts a transfer or leaves it hanging (DESIGN.md §3 C18).
// The pause (pauseTransferringFiles, what the stop/continue prompt calls) begins at every scheduling
// point of the default schedule of a multi-chunk transfer and ends (resumeTransferringFiles) after a
// virtual time below, around or above the timeout; optionally twice; optionally followed by a stop.

import (
	"bytes"
	"encoding/json"
	"fmt"
	"strings"
	"time"

	vs "github.com/trzsz/trzsz-go/zzverif/vsched"
)

type c18Params struct {
	W          wParams `json:"w"`
	ForMs      []int   `json:"for_ms"`
	Twice      bool    `json:"twice,omitempty"`
	AgainMs    []int   `json:"again_ms,omitempty"`     // with Twice: the second cycle begins that long after the first ended (default 200)
	AgainForMs int     `json:"again_for_ms,omitempty"` // with Twice: length of the second pause (default: the same)
	SlowK      []int   `json:"slow_k,omitempty"`       // additionally the k-th message the client writes is held for 1.2 s (each k in turn)
	SilentK    []int   `json:"silent_k,omitempty"`     // additionally the peer falls silent from its k-th message on (each k in turn): the continued side must still end
	Shard      int     `json:"shard"`
	NShards    int     `json:"nshards"`
	Sched      int     `json:"sched,omitempty"`
}

func c18Oracle(w *world, r *worldResult) (violation, outcome string) {
	timeout := time.Duration(w.p.Timeout) * time.Second
	said := serverSaid(r.SrvStdout)
	srvOK := r.SrvDone && r.SrvErr == "" && strings.HasPrefix(said, "Saved ")
	cliOK := strings.HasPrefix(r.ClientExit, "Saved ")
	outcome = "error"
	if srvOK && cliOK {
		outcome = "success"
	}
	switch {
	case len(r.Sched.Crash) > 0:
		return "panic in a product goroutine: " + r.Sched.CrashString(), "crash"
	case r.Sched.Horizon:
		return fmt.Sprintf("horizon reached (virtual %v): the paused transfer does not end", r.End), "horizon"
	case !r.SrvDone:
		return "the server never returned (hang): alive " + strings.Join(leakedWorkers(r.Alive), " "), "server-hang"
	case r.Transferring:
		return "the client never left the transfer (hang): alive " + strings.Join(leakedWorkers(r.Alive), " "), "client-hang"
	}
	if srvOK || cliOK {
		if v := c01OracleFilesAny(w, r, srvOK, cliOK); v != "" {
			return v, outcome
		}
	}
	longest := time.Duration(0)
	total := time.Duration(0)
	for _, pr := range r.Pauses {
		if d := pr.End - pr.Begin; d > longest {
			longest = d
		}
		total += pr.End - pr.Begin
	}
	// a pause eats into the peer's timeout together with the round trip that precedes and follows it
	rtt := 2 * time.Duration(w.p.LatencyMs) * time.Millisecond
	// (a "timer lands first" deviation stalls the whole process for r.Sched.Stall: for the peer that is pause time too)
	stall := r.Sched.Stall
	silent := len(w.p.MsgFaults) > 0 && w.p.MsgFaults[0].Kind == "silence" // the peer falls silent as well: only "never a hang" and "no wrong success" remain
	if len(r.Pauses) > 0 && !silent && longest+stall < timeout-300*time.Millisecond-rtt && outcome != "success" {
		return fmt.Sprintf("a pause of %v (timeout %v) made the transfer fail: server err %q said %q, client exit %q fail %q", longest, timeout, clipStr(r.SrvErr, 160), clipStr(said, 80), clipStr(r.ClientExit, 60), clipStr(r.ClientFail, 160)), outcome
	}
	if srvOK != cliOK && !silent {
		return fmt.Sprintf("one side reports success and the other an error (server ok=%v, client ok=%v): server err %q, client fail %q", srvOK, cliOK, clipStr(r.SrvErr, 160), clipStr(r.ClientFail, 160)), outcome
	}
	// while paused the client sends no further file data: at most the chunk whose pause check had passed
	for i, pr := range r.Pauses {
		if pr.C2SLenEnd < pr.C2SLen || pr.C2SLenEnd > len(r.ClientSent) {
			continue
		}
		win := r.ClientSent[pr.C2SLen:pr.C2SLenEnd]
		data := 0
		for _, line := range bytes.Split(win, []byte("\n")) {
			if bytes.HasPrefix(line, []byte("#DATA:")) && !bytes.HasPrefix(line, []byte("#DATA:=")) {
				data++
			}
		}
		if data > 1 {
			return fmt.Sprintf("%d data chunks were started during pause %d (%v..%v); at most the one already past its pause check may finish", data, i, pr.Begin, pr.End), outcome
		}
	}
	// keep-alive cadence while paused
	lat := time.Duration(w.p.LatencyMs) * time.Millisecond
	for i, pr := range r.Pauses {
		var last time.Duration = -1
		for _, ka := range r.KeepAlives {
			if ka < pr.Begin || ka > pr.End {
				continue
			}
			if last >= 0 && ka-last > 150*time.Millisecond+lat+stall {
				return fmt.Sprintf("keep-alive lines %v apart during pause %d (expected at most 150 ms)", ka-last, i), outcome
			}
			last = ka
		}
	}
	// (whether the pause shrinks the buffer size is recorded as an observation only: the property does not ask for it)
	return "", outcome
}

// c01OracleFilesAny: every name a successful side lists is at the destination with the source's content.
func c01OracleFilesAny(w *world, r *worldResult, srvOK, cliOK bool) string {
	v, _ := c02Oracle(w, r)
	return v
}

func c18Run(j vs.Job) *vs.JobResult {
	var p c18Params
	j.Decode(&p)
	r := &vs.JobResult{Outcomes: map[string]int64{}}
	if j.Replay != nil && j.Replay.Detail != nil {
		b, _ := json.Marshal(j.Replay.Detail)
		var wp wParams
		json.Unmarshal(b, &wp)
		w, res := runWorld(wp, vs.Config{Trace: true, ClockChoice: p.Sched > 0}, j.Replay.Choices, j.Replay.Ns, nil)
		v, o := c18Oracle(w, res)
		r.Notes = append(r.Notes, res.Sched.Trace...)
		r.Notes = append(r.Notes, fmt.Sprintf("outcome=%s pauses=%+v keepalives=%v srvDone=%v@%v cliDone=%v@%v srvErr=%q said=%q exit=%q cfail=%q sfail=%q", o, res.Pauses, res.KeepAlives, res.SrvDone, res.SrvDoneAt, res.CliDone, res.CliDoneAt,
			clipStr(res.SrvErr, 200), serverSaid(res.SrvStdout), res.ClientExit, clipStr(res.ClientFail, 200), clipStr(res.ServerFail, 200)))
		if v != "" {
			r.Violate("c18:"+wp.String(), v, wp)
		}
		return r
	}
	w0, res0 := runWorld(p.W, vs.Config{}, nil, nil, nil)
	if v := c01Oracle(w0, res0, true); v != "" {
		r.ToolErr = "the reference run without a pause is not clean: " + v
		return r
	}
	nSteps := res0.StepsAtDone
	r.Max("pause_points", float64(nSteps))
	seen := map[string]bool{}
	k := 0
	longPauses, withKeepAlive := 0, 0
	agains := p.AgainMs
	if len(agains) == 0 {
		agains = []int{200}
	}
	type combo struct{ again, slowK int }
	var combos []combo
	for _, a := range agains {
		if len(p.SlowK) == 0 && len(p.SilentK) == 0 {
			combos = append(combos, combo{a, 0})
		}
		for _, sk := range p.SlowK {
			combos = append(combos, combo{a, sk})
		}
		for _, sk := range p.SilentK {
			combos = append(combos, combo{a, -sk}) // negative: silence from that message on
		}
	}
	for step := 1; step <= nSteps; step++ {
		for _, ms0 := range p.ForMs {
			for _, cb := range combos {
				again := cb.again
				ms := ms0
				k++
				if k%p.NShards != p.Shard {
					continue
				}
				if j.Deadline > 0 && time.Now().Unix() > j.Deadline {
					r.Capped = "deadline"
					break
				}
				wp := p.W
				wp.Pauses = []wPause{{Step: step, ForMs: ms}}
				if p.Twice {
					// a second cycle 200 ms (virtual) after the first one ended
					wp.Pauses[0].AgainAfterMs = again
					wp.Pauses[0].AgainForMs = p.AgainForMs
				}
				if cb.slowK > 0 {
					wp.MsgFaults = []wMsgFault{{"c2s", cb.slowK, "slow"}}
				} else if cb.slowK < 0 {
					peer := "s2c"
					if wp.Dir == "down" {
						peer = "s2c" // the server is the peer of the pausing client in both directions
					}
					wp.MsgFaults = []wMsgFault{{peer, -cb.slowK, "silence"}}
				}
				exec := func(prefix, prefixN []int, trace bool) *vs.ExecResult {
					w, res := runWorld(wp, vs.Config{Trace: trace, ClockChoice: p.Sched > 0}, prefix, prefixN, nil)
					v, o := c18Oracle(w, res)
					if len(res.Pauses) == 0 {
						o = "pause-missed-" + o
					}
					for _, pr := range res.Pauses {
						if pr.BufAfter > 0 && pr.BufBefore > 0 && pr.BufAfter < pr.BufBefore {
							r.Max("runs_where_the_pause_shrank_the_buffer", 1)
						}
					}
					if len(res.Pauses) > 0 && ms >= 1500 {
						longPauses++
						for _, ka := range res.KeepAlives {
							if ka >= res.Pauses[0].Begin && ka <= res.Pauses[0].End {
								withKeepAlive++
								break
							}
						}
					}
					x := &vs.ExecResult{Sched: res.Sched, Outcome: o, Violation: v, Detail: wp}
					if v != "" {
						x.Signature = "c18:" + wp.Dir + ":" + firstWords(v, 9)
					}
					return x
				}
				st := vs.NewStats()
				e := &vs.Explorer{Exec: exec, Budget: vs.Budget{Total: p.Sched, OnlyAfterStep: step}, NShards: 1, St: st, MaxViol: 1, SigSeen: seen,
					Known: func(sig string) bool { return vs.IsKnown("C18", sig) }}
				if j.Deadline > 0 {
					e.Deadline = time.Unix(j.Deadline, 0)
				}
				e.Explore()
				r.AddStats(st)
				if !p.Twice && len(p.SilentK) == 0 && len(p.SlowK) == 0 {
					break
				}
			}
		}
		unknown := 0
		for _, v := range r.Violations {
			if !vs.IsKnown("C18", v.Signature) {
				unknown++
			}
		}
		if unknown >= 5 || r.Capped != "" {
			break
		}
	}
	r.Max("runs_with_keepalive_lines", float64(withKeepAlive))
	if longPauses >= 50 && withKeepAlive == 0 && r.Capped == "" {
		r.Violate("c18:no-keepalive:"+p.W.Dir, fmt.Sprintf("%s: in %d executions with a pause of >= 1.5 s at successive points of the transfer the paused client never sent a single keep-alive line in place of data", p.W.String(), longPauses), nil)
	}
	r.Nontrivial = r.Execs - r.Outcomes["pause-missed-success"]
	for i := range r.Violations {
		r.Violations[i].Desc = fmt.Sprintf("%v: %s", r.Violations[i].Detail, r.Violations[i].Desc)
	}
	return r
}

func init() {
	vs.Register(&vs.Check{
		ID:    "C18",
		Level: "model_checking",
		Rule: "the pause begins atomically just before every scheduler step of the default schedule of a 4-chunk transfer and ends after {0.1 s, timeout-0.5 s, timeout+0.5 s, 3 x timeout} of virtual time (timeout 2 s); " +
			"x direction x protocol 3/4 x base64 / binary over the tunnel x link latency 0 / 300 ms / 1.1 s (slow enough for the sender to shrink its buffer and split queued buffers); one or two cycles (the second 200 ms after the first; over the 300 ms link 50..1100 ms after it in 6 steps, also with a 16-chunk file so that the ack window fills, in both directions); thorough: x every single schedule deviation after the pause began",
		Assumptions: []string{"pause/resume = the calls the stop/continue prompt makes (pauseTransferringFiles / resumeTransferringFiles); promptui itself is not driven",
			"'below the timeout' is asserted for pauses shorter than timeout - 0.3 s (the paused side polls every 100 ms)"},
		TraceNote:   "explored directly on the implementation; the number counts executions replayed from recorded choice lists",
		QuickBudget: 110, ThoroughBudget: 1500, DiedIsViolation: true,
		Jobs: func(tier string) []vs.Job {
			cfgs := []wParams{
				{Dir: "up", Tree: "one:R:35000", Timeout: 2},
				{Dir: "down", Tree: "one:R:35000", Timeout: 2},
				{Dir: "up", Tree: "one:R:35000", Timeout: 2, Protocol: 3},
				{Dir: "down", Tree: "one:R:35000", Timeout: 2, Binary: true, Tunnel: true},
				{Dir: "up", Tree: "one:R:35000", Timeout: 2, LatencyMs: 300},
				{Dir: "down", Tree: "small3", Timeout: 2}, // several files: the pause may fall between two of them
				// a link so slow (round trip 2.2 s) that the sender shrinks its buffer and sends queued buffers in pieces
				{Dir: "up", Tree: "one:R:60000", Timeout: 6, LatencyMs: 1100},
			}
			if tier == "thorough" {
				cfgs = append(cfgs,
					wParams{Dir: "down", Tree: "one:R:35000", Timeout: 2, Protocol: 3},
					wParams{Dir: "up", Tree: "one:R:35000", Timeout: 2, Binary: true, Tunnel: true},
					wParams{Dir: "up", Tree: "one:R:60000", Timeout: 2, LatencyMs: 300},
					wParams{Dir: "down", Tree: "one:R:60000", Timeout: 2, LatencyMs: 300},
					wParams{Dir: "up", Tree: "small3", Timeout: 2},
				)
			}
			var jobs []vs.Job
			for _, c := range cfgs {
				lens := []int{100, 1500, 2500, 6000}
				if c.LatencyMs > 0 {
					lens = []int{100, 1000, 2500}
				}
				n := 4
				for s := 0; s < n; s++ {
					jobs = append(jobs, vs.MkJob(fmt.Sprintf("pause %s %d/%d", c.String(), s, n), c18Params{W: c, ForMs: lens, Shard: s, NShards: n}))
				}
			}
			for _, c := range cfgs[:2] {
				n := 4
				for s := 0; s < n; s++ {
					jobs = append(jobs, vs.MkJob(fmt.Sprintf("pause-twice %s %d/%d", c.String(), s, n), c18Params{W: c, ForMs: []int{100, 1500}, Twice: true, Shard: s, NShards: n}))
				}
			}
			// two cycles over a link with latency (the transfer is still under way when the second pause begins,
			// with a reader that has already been waiting for a while): second cycle 50..1100 ms after the first
			for _, c := range []wParams{{Dir: "up", Tree: "one:R:35000", Timeout: 2, LatencyMs: 300}, {Dir: "down", Tree: "one:R:35000", Timeout: 2, LatencyMs: 300},
				// 16 chunks of 10 K: the window of unacknowledged chunks fills while the paused side holds its acks back
				{Dir: "down", Tree: "one:R:120000", Bufsize: 10240, Timeout: 2, LatencyMs: 100}, {Dir: "up", Tree: "one:R:120000", Bufsize: 10240, Timeout: 2, LatencyMs: 100}} {
				n := 8
				for s := 0; s < n; s++ {
					jobs = append(jobs, vs.MkJob(fmt.Sprintf("pause-twice-latency %s %d/%d", c.String(), s, n), c18Params{W: c, ForMs: []int{1500}, AgainMs: []int{50, 250, 450, 650, 850, 1100}, Twice: true, Shard: s, NShards: n}))
				}
			}
			// two cycles (0.3 s, then 1.6 s one second later) while one message of the paused side is held in its
			// write for 1.2 s (a congested link): a read of the paused side may wait across the second pause
			for _, c := range []wParams{{Dir: "down", Tree: "one:R:35000", Timeout: 2}, {Dir: "up", Tree: "one:R:35000", Timeout: 2}} {
				n := 8
				for s := 0; s < n; s++ {
					jobs = append(jobs, vs.MkJob(fmt.Sprintf("pause-twice-slow-write %s %d/%d", c.String(), s, n), c18Params{W: c, ForMs: []int{300}, AgainMs: []int{1000}, AgainForMs: 1600, SlowK: []int{2, 3, 4, 5, 6, 7, 8, 9, 10, 11, 12, 13, 14}, Twice: true, Shard: s, NShards: n}))
				}
			}
			// pause and continue while the peer falls silent: the continued side must still end (with an error), never hang
			for _, c := range []wParams{{Dir: "up", Tree: "one:R:35000", Timeout: 2}, {Dir: "down", Tree: "one:R:35000", Timeout: 2}} {
				n := 4
				for s := 0; s < n; s++ {
					jobs = append(jobs, vs.MkJob(fmt.Sprintf("pause-and-silence %s %d/%d", c.String(), s, n), c18Params{W: c, ForMs: []int{300, 1400}, SilentK: []int{4, 6, 8}, Shard: s, NShards: n}))
				}
			}
			if tier == "thorough" {
				for _, c := range cfgs[:4] {
					n := 16
					for s := 0; s < n; s++ {
						jobs = append(jobs, vs.MkJob(fmt.Sprintf("pause+sched1 %s %d/%d", c.String(), s, n), c18Params{W: c, ForMs: []int{100, 2500}, Shard: s, NShards: n, Sched: 1}))
					}
				}
			}
			return jobs
		},
		Run: c18Run,
	})
}
