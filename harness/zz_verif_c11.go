package trzsz

// C11 — a transfer cannot hang: faults end it with an error on both sides in time
// (DESIGN.md §3 C11). Message-level connection faults (silence / write error from the k-th message
// on, either or both directions), local I/O failures at every k-th call (R9 hooks) and a source file
// shrinking on disk, each as a full transfer in virtual time; thorough adds schedule perturbation
// after the fault.

import (
	"bytes"
	"encoding/json"
	"fmt"
	"sort"
	"strings"
	"time"

	vs "github.com/trzsz/trzsz-go/zzverif/vsched"
)

// pumps and long-lived helpers that live as long as the connection by design
var allowedAlive = []string{"NewTrzszFilter/", "NewTrzszRelay/", "wrapTransferInput/", "newTunnelRelay/", "TrzszRelay.handleTunnelConn/",
	"TrzszRelay.acceptOnTunnel/", "trzszTransfer.acceptOnTunnel/", "monitor", "TrzszFilter.OneTimeUpload/", "main"}

func leakedWorkers(alive []string) []string {
	var out []string
	for _, a := range alive {
		ok := false
		for _, p := range allowedAlive {
			if strings.HasPrefix(a, p) {
				ok = true
				break
			}
		}
		if !ok {
			out = append(out, a)
		}
	}
	return out
}

// leakSignature names the leaked workers by spawn function and blocking operation (no line numbers).
func leakSignature(l []string) string {
	var parts []string
	for _, a := range l {
		fn, op := a, ""
		if i := strings.Index(a, "/"); i >= 0 {
			fn = a[:i]
		}
		if i := strings.LastIndex(a, "@"); i >= 0 {
			op = a[i:]
		}
		parts = append(parts, fn+op)
	}
	sort.Strings(parts)
	return strings.Join(parts, "+")
}

type c11Params struct {
	W       wParams `json:"w"`
	Shard   int     `json:"shard"`
	NShards int     `json:"nshards"`
	Sched   int     `json:"sched,omitempty"` // schedule deviations explored after the fault (thorough)
}

func c11Oracle(w *world, r *worldResult) (violation, outcome string) {
	timeout := time.Duration(w.p.Timeout) * time.Second
	lat := time.Duration(w.p.LatencyMs) * time.Millisecond
	bound := 2*timeout + 3*time.Second + 4*lat + r.Sched.Stall
	for _, pa := range w.p.Pauses {
		bound += time.Duration(pa.ForMs) * time.Millisecond // a pause the user asked for is not the transfer's delay
	}
	said := serverSaid(r.SrvStdout)
	srvOK := r.SrvDone && r.SrvErr == "" && strings.HasPrefix(said, "Saved ")
	cliOK := strings.HasPrefix(r.ClientExit, "Saved ")
	outcome = fmt.Sprintf("srvOK=%v cliOK=%v", srvOK, cliOK)
	switch {
	case len(r.Sched.Crash) > 0:
		return "panic in a product goroutine: " + r.Sched.CrashString(), "crash"
	case r.Sched.Horizon:
		return fmt.Sprintf("horizon reached (virtual %v, %d steps): the transfer does not end", r.End, r.Sched.Steps), "horizon"
	case !r.SrvDone:
		return "the server role never returned (blocked for ever): alive " + strings.Join(leakedWorkers(r.Alive), " "), "server-hang"
	case w.filter != nil && r.Transferring:
		return "the client never left the transfer (blocked for ever): alive " + strings.Join(leakedWorkers(r.Alive), " "), "client-hang"
	}
	if r.SrvDoneAt > bound {
		return fmt.Sprintf("the server returned after %v, bound %v", r.SrvDoneAt, bound), outcome
	}
	cliBound := bound
	if !bytes.Contains(r.ClientGot, []byte("#CFG:")) {
		// the client never learnt the configured timeout: its own default (20 s) applies
		cliBound = 2*20*time.Second + 3*time.Second + 4*lat + r.Sched.Stall
	}
	if r.CliDone && r.CliDoneAt > cliBound {
		return fmt.Sprintf("the client returned after %v, bound %v", r.CliDoneAt, cliBound), outcome
	}
	// a side reports success only if its part was complete and verified: the files must be right
	if srvOK || cliOK {
		if v, _ := c02Oracle(w, r); v != "" {
			return v, outcome
		}
	}
	if l := leakedWorkers(r.Alive); len(l) > 0 {
		return "workers of the transfer are still alive after both sides returned and every timer ran out: " + strings.Join(l, " "), outcome
	}
	return "", outcome
}

func c11Run(j vs.Job) *vs.JobResult {
	var p c11Params
	j.Decode(&p)
	r := &vs.JobResult{Outcomes: map[string]int64{}}
	states := map[uint64]struct{}{}
	if j.Replay != nil && j.Replay.Detail != nil {
		b, _ := json.Marshal(j.Replay.Detail)
		var wp wParams
		json.Unmarshal(b, &wp)
		w, res := runWorld(wp, vs.Config{Trace: true, ClockChoice: p.Sched > 0}, j.Replay.Choices, j.Replay.Ns, nil)
		v, o := c11Oracle(w, res)
		r.Notes = append(r.Notes, res.Sched.Trace...)
		r.Notes = append(r.Notes, fmt.Sprintf("outcome=%s srvDone=%v@%v cliDone=%v@%v srvErr=%q said=%q exit=%q cfail=%q sfail=%q alive=%v", o, res.SrvDone, res.SrvDoneAt, res.CliDone, res.CliDoneAt, clipStr(res.SrvErr, 200), serverSaid(res.SrvStdout), res.ClientExit, clipStr(res.ClientFail, 200), clipStr(res.ServerFail, 200), res.Alive))
		if v != "" {
			r.Violate("c11:"+wp.String(), v, wp)
		}
		return r
	}
	// reference run: number of messages per direction, number of hook calls per side
	calls := map[string]int{}
	vs.ObsFn = nil
	ref := p.W
	w0, res0 := runWorldWith(ref, vs.Config{}, nil, nil, func(w *world) {
		vs.HookFn = func(name string, args ...any) error {
			side := "server"
			if vs.Flag("client") {
				side = "client"
			}
			calls[side+":"+name]++
			return nil
		}
	})
	if v := c01Oracle(w0, res0, true); v != "" {
		r.ToolErr = "the unfaulted reference run is not clean: " + v
		return r
	}
	nC2S, nS2C := len(w0.c2s[0].Log), len(w0.s2c[0].Log)
	c2sLog, c2sBytes := w0.c2s[0].Log, w0.c2s[0].Written
	if p.W.Tunnel {
		nC2S, nS2C = res0.TunMsgsC2S, res0.TunMsgsS2C
		c2sLog, c2sBytes = res0.TunLogC2S, res0.TunC2S
	}
	// "once the handshake has begun": connection faults start after the message that carries the ACT
	firstK := 1
	for i, st := range c2sLog {
		if bytes.HasPrefix(c2sBytes[st.Off:], []byte("#ACT:")) {
			firstK = i + 1
		}
	}
	var cases []wParams
	add := func(f func(wp *wParams)) {
		wp := p.W
		f(&wp)
		cases = append(cases, wp)
	}
	for _, kind := range []string{"silence", "werr"} {
		for k := firstK; k <= nC2S; k++ { // the handshake has begun (ACT delivered)
			k := k
			add(func(wp *wParams) { wp.MsgFaults = []wMsgFault{{"c2s", k, kind}} })
		}
		for k := 1; k <= nS2C; k++ { // k >= 1: the trigger was delivered
			k := k
			add(func(wp *wParams) { wp.MsgFaults = []wMsgFault{{"s2c", k, kind}} })
		}
	}
	// silence after the user has paused and continued the transfer once (the timers of a blocked read are
	// replaced on "continue"): pause 0.5 s after the start for 0.5 s, protocol >= 3 only
	if p.W.Protocol == 0 || p.W.Protocol >= 3 {
		for k := firstK; k <= nC2S; k += 2 {
			k := k
			add(func(wp *wParams) {
				wp.MsgFaults = []wMsgFault{{"c2s", k, "silence"}}
				wp.Pauses = []wPause{{AtMs: 500, ForMs: 500}}
			})
		}
		for k := 1; k <= nS2C; k += 2 {
			k := k
			add(func(wp *wParams) {
				wp.MsgFaults = []wMsgFault{{"s2c", k, "silence"}}
				wp.Pauses = []wPause{{AtMs: 500, ForMs: 500}}
			})
		}
	}
	// one message is 2.3 s late (below the 3 s timeout): a latency spike; nothing may hang because of it
	for k := firstK; k <= nC2S; k++ {
		k := k
		add(func(wp *wParams) { wp.MsgFaults = []wMsgFault{{"c2s", k, "slow:2300"}} })
	}
	for k := 1; k <= nS2C; k++ {
		k := k
		add(func(wp *wParams) { wp.MsgFaults = []wMsgFault{{"s2c", k, "slow:2300"}} })
	}
	// both directions go silent around the same point
	for k := firstK; k <= nC2S && k <= nS2C; k++ {
		k := k
		add(func(wp *wParams) { wp.MsgFaults = []wMsgFault{{"c2s", k, "silence"}, {"s2c", k, "silence"}} })
	}
	for key, n := range calls {
		side, hook := key[:strings.Index(key, ":")], key[strings.Index(key, ":")+1:]
		for k := 1; k <= n; k++ {
			k := k
			add(func(wp *wParams) { wp.Local = &wLocalFault{side, hook, k, "err"} })
			if hook == "fileRead" || hook == "archiveRead" {
				add(func(wp *wParams) { wp.Local = &wLocalFault{side, hook, k, "shrink"} })
			}
			if hook == "fileWrite" || hook == "archiveWrite" {
				add(func(wp *wParams) { wp.Local = &wLocalFault{side, hook, k, "slowerr"} })
			}
		}
	}
	r.Max("messages_c2s", float64(nC2S))
	r.Max("messages_s2c", float64(nS2C))
	r.Max("fault_cases", float64(len(cases)))
	seen := map[string]bool{}
	for i, wp := range cases {
		if i%p.NShards != p.Shard {
			continue
		}
		if j.Deadline > 0 && time.Now().Unix() > j.Deadline {
			r.Capped = "deadline"
			break
		}
		exec := func(prefix, prefixN []int, trace bool) *vs.ExecResult {
			w, res := runWorld(wp, vs.Config{Trace: trace, ClockChoice: p.Sched > 0}, prefix, prefixN, nil)
			v, o := c11Oracle(w, res)
			r.Max("server_return_ms_max", float64(res.SrvDoneAt.Milliseconds()))
			r.Max("client_return_ms_max", float64(res.CliDoneAt.Milliseconds()))
			x := &vs.ExecResult{Sched: res.Sched, Outcome: o, Violation: v, Detail: wp}
			if v != "" {
				x.Signature = "c11:" + wp.String() + ":" + firstWords(v, 8)
				if l := leakedWorkers(res.Alive); len(l) > 0 && strings.HasPrefix(v, "workers of the transfer") {
					x.Signature = "c11:leak:" + leakSignature(l)
				}
			}
			return x
		}
		st := vs.NewStats()
		e := &vs.Explorer{Exec: exec, Budget: vs.Budget{Total: p.Sched}, NShards: 1, St: st, MaxViol: 1, SigSeen: seen,
			Known: func(sig string) bool { return vs.IsKnown("C11", sig) }}
		if j.Deadline > 0 {
			e.Deadline = time.Unix(j.Deadline, 0)
		}
		e.Explore()
		r.AddStats(st)
		for _, v := range st.Violations {
			_ = v
		}
		unknown := 0
		for _, v := range r.Violations {
			if !vs.IsKnown("C11", v.Signature) {
				unknown++
			}
		}
		if unknown >= 4 {
			break
		}
	}
	r.Nontrivial = r.Execs
	for h := range states {
		r.States = append(r.States, h)
	}
	for i := range r.Violations {
		r.Violations[i].Desc = fmt.Sprintf("%v: %s", r.Violations[i].Detail, r.Violations[i].Desc)
	}
	return r
}

func init() {
	vs.Register(&vs.Check{
		ID:    "C11",
		Level: "fault_enumeration",
		Rule: "per configuration: connection silence / write error from every message index on in either direction (after the handshake began) and in both at once; every k-th call of every local I/O seam (destination write, source read, archive read/write) failing, every write also failing after having taken a second; " +
			"the source shrinking on disk before every k-th read; silence after a pause/continue cycle (every 2nd message index); one message 2.3 s late at every index; thorough: every schedule with <=1 deviation (preemption, select alternative, timer landing first) on top of each fault",
		Assumptions: []string{"timeout > 0 (3 s virtual); a timeout <= 0 asks for no bound and nothing is asserted", "the bound asserted is 2*timeout + 3 s; the maximum observed is reported",
			"pumps that live as long as the connection by design are excluded from the leak oracle by spawn site"},
		QuickBudget: 110, ThoroughBudget: 1500, DiedIsViolation: true,
		Jobs: func(tier string) []vs.Job {
			cfgs := []wParams{
				{Dir: "up", Tree: "one:R:21000", Timeout: 3},
				{Dir: "down", Tree: "one:R:21000", Timeout: 3},
				{Dir: "up", Tree: "small3", Protocol: 2, Timeout: 3},
				{Dir: "down", Tree: "dir", Directory: true, Timeout: 3},
				// 16 chunks of 10 K (-B 10K): the buffer-size probing ends with the first ack and the window of unacknowledged chunks fills
				{Dir: "up", Tree: "one:R:120000", Bufsize: 10240, Timeout: 3},
				{Dir: "down", Tree: "one:R:120000", Bufsize: 10240, Timeout: 3},
				// -y onto an existing file: the prefix-hash exchange (64-byte blocks) has messages of its own that may fall silent
				{Dir: "up", Tree: "one:E:300", Overwrite: true, DstPre: "c08:same@200", HashStep: 64, Timeout: 3},
				{Dir: "down", Tree: "one:E:300", Overwrite: true, DstPre: "c08:same@200", HashStep: 64, Timeout: 3},
			}
			if tier == "thorough" {
				cfgs = append(cfgs,
					wParams{Dir: "down", Tree: "small3", Protocol: 2, Timeout: 3},
					wParams{Dir: "up", Tree: "dir", Directory: true, Timeout: 3},
					wParams{Dir: "up", Tree: "one:R:21000", Binary: true, Timeout: 3},
					wParams{Dir: "down", Tree: "one:R:21000", Binary: true, Tunnel: true, Timeout: 3},
					wParams{Dir: "up", Tree: "one:R:21000", Timeout: 3, WireCap: 4096},
					wParams{Dir: "down", Tree: "one:R:40000", Timeout: 3, WireCap: 4096, LatencyMs: 300},
					wParams{Dir: "up", Tree: "small3", Relays: 1, Timeout: 3},
				)
			}
			var jobs []vs.Job
			for _, c := range cfgs {
				n := 8
				for s := 0; s < n; s++ {
					jobs = append(jobs, vs.MkJob(fmt.Sprintf("faults %s %d/%d", c.String(), s, n), c11Params{W: c, Shard: s, NShards: n}))
				}
			}
			if tier == "thorough" {
				for _, c := range cfgs[:4] {
					n := 16
					for s := 0; s < n; s++ {
						jobs = append(jobs, vs.MkJob(fmt.Sprintf("faults+sched1 %s %d/%d", c.String(), s, n), c11Params{W: c, Shard: s, NShards: n, Sched: 1}))
					}
				}
			}
			return jobs
		},
		Run: c11Run,
	})
}
