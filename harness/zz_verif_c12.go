package trzsz

// C12 — no input from the other side can crash the process (DESIGN.md §3 C12).
// (i) every field of every protocol line of a recorded transcript is replaced by boundary values
// (field-aware man in the middle) in a full transfer on the real code; (ii) every token string up to
// length 4 over scanner alphabets is fed to the scanners that look at terminal output / input.

import (
	"bytes"
	"encoding/json"
	"fmt"
	"runtime"
	"strconv"
	"strings"
	"time"

	vs "github.com/trzsz/trzsz-go/zzverif/vsched"
)

type c12Params struct {
	W       wParams `json:"w"`
	Shard   int     `json:"shard"`
	NShards int     `json:"nshards"`
	Scanner string  `json:"scanner,omitempty"`
	Pairs   bool    `json:"pairs,omitempty"`
}

var c12Ints = []string{"-9223372036854775808", "-1", "0", "1", "2147483648", "4611686018427387904", "9223372036854775807", "99999999999999999999", "abc", "", "1e3", " 7", "0x10"}

var c12JSONVals = []string{"-1", "0", "1", "2147483648", "4611686018427387904", "-9223372036854775808", `"str"`, "null", "[]", "{}", "true", "1.5", `[[1,2]]`, `[["a","b"]]`, `""`}

var c12Raw = []string{"", "!!!not-base64!!!", "QUJD", "eJw=", "eJwDAAAAAAE", "KLUv/QQAQQAAQUJD", "KLUv/QRY", strings.Repeat("A", 10000), "=", "eJxLTEoGAAJNASc"}

// c12Lines parses the reference transcript of one direction into protocol lines, the same way the
// man-in-the-middle filter counts them.
type c12Line struct {
	idx     int
	typ     string
	payload string
}

func c12Lines(log []vs.Stamp, stream []byte) []c12Line {
	var out []c12Line
	skip := 0
	for _, st := range log {
		b := stream[st.Off : st.Off+st.Len]
		if skip > 0 {
			if len(b) <= skip {
				skip -= len(b)
				continue
			}
			skip = 0
		}
		if len(b) == 0 || b[0] != '#' {
			continue
		}
		colon := bytes.IndexByte(b, ':')
		end := bytes.IndexAny(b, "!\n")
		if colon < 0 {
			continue
		}
		if end < 0 {
			end = len(b)
		}
		out = append(out, c12Line{len(out), string(b[1:colon]), string(b[colon+1 : end])})
	}
	return out
}

// c12Cases lists the substitutions for one line.
func c12Cases(dir string, l c12Line, binary bool) []*wMitm {
	var out []*wMitm
	add := func(field, value string) {
		out = append(out, &wMitm{Dir: dir, Line: l.idx, Field: field, Value: value})
	}
	for _, t := range []string{"XXXX", "", "fail", "FAIL", "EXIT", "SUCC", "DATA", strings.ToLower(l.typ)} {
		if t != l.typ {
			add("type", t)
		}
	}
	p := l.payload
	isInt := func(s string) bool { _, err := strconv.ParseInt(s, 10, 64); return err == nil }
	switch {
	case isInt(p):
		v, _ := strconv.ParseInt(p, 10, 64)
		for _, x := range c12Ints {
			add("int", x)
		}
		add("int", strconv.FormatInt(v+1, 10))
		add("int", strconv.FormatInt(v-1, 10))
	case strings.Count(p, "/") == 1 && isInt(strings.Split(p, "/")[0]) && isInt(strings.Split(p, "/")[1]):
		for i, f := range []string{"int0", "int1"} {
			v, _ := strconv.ParseInt(strings.Split(p, "/")[i], 10, 64)
			for _, x := range c12Ints {
				add(f, x)
			}
			add(f, strconv.FormatInt(v+1, 10))
			add(f, strconv.FormatInt(v-1, 10))
		}
		add("raw", "1/2/3")
		add("raw", "7")
	case p == "true" || p == "false" || p == "=":
		for _, x := range []string{"", "maybe", "TRUE", "1", "=", "=="} {
			add("raw", x)
		}
	default:
		for _, x := range c12Raw {
			add("raw", x)
		}
		if len(p) > 8 {
			add("raw", p[:len(p)/2]) // truncated
			add("raw", p[:len(p)-1])
		}
		if raw, err := decodeString(p); err == nil {
			var obj map[string]json.RawMessage
			if json.Unmarshal(raw, &obj) == nil && len(obj) > 0 {
				for k := range obj {
					for _, v := range c12JSONVals {
						add("json:"+k, v)
					}
					if string(obj[k]) != "" && isInt(string(obj[k])) {
						n, _ := strconv.ParseInt(string(obj[k]), 10, 64)
						add("json:"+k, strconv.FormatInt(n+1, 10))
						add("json:"+k, strconv.FormatInt(n-1, 10))
					}
				}
				// members the sender did not include
				for _, k := range []string{"protocol", "bufsize", "timeout", "tmux_pane_width", "escape_chars", "newline", "binary", "size", "perm", "path_id", "path_name", "archive", "is_dir", "step", "hash", "over", "match", "name", "compress", "fork", "tunnel"} {
					if _, ok := obj[k]; !ok {
						for _, v := range []string{"-1", "2147483647", "4611686018427387904", `"x"`, "null", "[]"} {
							add("json:"+k, v)
						}
					}
				}
				add("inner", string(raw[:len(raw)/2])) // truncated JSON
				add("inner", "[]")
				add("inner", "null")
				add("inner", `{"path_name":[]}`)
			} else {
				for _, x := range []string{"", strings.Repeat("A", 10000), "../../x", "a\x00b", "{", `{"a":`} {
					add("inner", x)
				}
			}
		}
	}
	_ = binary
	return out
}

func c12Oracle(w *world, r *worldResult, allocDelta uint64, wireBytes int) (violation, outcome string) {
	outcome = "error-reported"
	switch {
	case len(r.Sched.Crash) > 0:
		return "unrecovered panic in a product goroutine (the process dies): " + r.Sched.CrashString(), "crash"
	case r.Sched.Horizon:
		return fmt.Sprintf("horizon reached (virtual %v, %d steps)", r.End, r.Sched.Steps), "horizon"
	}
	limit := uint64(64<<20) + 8*uint64(wireBytes)
	if allocDelta > limit {
		return fmt.Sprintf("%d MiB were allocated during the transfer (limit %d MiB for %d bytes on the wire): allocation on the strength of a length field", allocDelta>>20, limit>>20, wireBytes), "alloc"
	}
	said := serverSaid(r.SrvStdout)
	srvOK := r.SrvDone && r.SrvErr == "" && strings.HasPrefix(said, "Saved ")
	cliOK := strings.HasPrefix(r.ClientExit, "Saved ")
	if srvOK && cliOK {
		outcome = "success"
	}
	if !r.SrvDone {
		return "the server never returned after malformed input", "server-hang"
	}
	if r.Transferring {
		return "the client is still in the transfer after malformed input (session unusable)", "client-hang"
	}
	if r.SrvErr != "" && said == "" {
		return "the transfer failed on the server but nothing was reported to the user", outcome
	}
	if r.ProbeOut != "ok" {
		return "after the transfer the session is not usable: " + r.ProbeOut, outcome
	}
	if v := progressOracle(r.Term, w.p.Columns); v != "" {
		return "progress display in an impossible state: " + v, outcome
	}
	return "", outcome
}

func c12Run(j vs.Job) *vs.JobResult {
	var p c12Params
	j.Decode(&p)
	if p.Scanner != "" {
		return c12Scanners(j, p)
	}
	r := &vs.JobResult{Outcomes: map[string]int64{}}
	states := map[uint64]struct{}{}
	runOne := func(wp wParams, trace bool) (*world, *worldResult, string, string) {
		var m0, m1 runtime.MemStats
		runtime.ReadMemStats(&m0)
		wp.Probe = true
		w, res := runWorld(wp, vs.Config{Trace: trace}, nil, nil, nil)
		runtime.ReadMemStats(&m1)
		wire := len(res.C2S) + len(res.S2C) + len(res.TunC2S) + len(res.TunS2C)
		v, o := c12Oracle(w, res, m1.TotalAlloc-m0.TotalAlloc, wire)
		r.Max("alloc_mib_max", float64((m1.TotalAlloc-m0.TotalAlloc)>>20))
		return w, res, v, o
	}
	if j.Replay != nil && j.Replay.Detail != nil {
		b, _ := json.Marshal(j.Replay.Detail)
		var wp wParams
		json.Unmarshal(b, &wp)
		_, res, v, o := runOne(wp, true)
		r.Notes = append(r.Notes, res.Sched.Trace...)
		r.Notes = append(r.Notes, fmt.Sprintf("outcome=%s srvErr=%q said=%q exit=%q cfail=%q sfail=%q probe=%q", o, clipStr(res.SrvErr, 300), serverSaid(res.SrvStdout), res.ClientExit, clipStr(res.ClientFail, 300), clipStr(res.ServerFail, 300), res.ProbeOut))
		if v != "" {
			r.Violate("c12:"+wp.String(), v, wp)
		}
		return r
	}
	ref := p.W
	ref.Probe = true
	w0, res0 := runWorld(ref, vs.Config{}, nil, nil, nil)
	if v := c01Oracle(w0, res0, true); v != "" {
		if len(res0.Sched.Crash) > 0 {
			// no substitution needed: the peer's well-formed messages alone crash the process
			r.Violate("c12:reference-crash:"+firstWords(res0.Sched.CrashString(), 8), ref.String()+": the unmodified, well-formed transcript already crashes: "+v, ref)
			return r
		}
		r.ToolErr = "the unmodified reference run is not clean: " + v
		return r
	}
	if res0.ProbeOut != "ok" {
		r.ToolErr = "the probe fails on the unmodified reference run: " + res0.ProbeOut
		return r
	}
	var cases []*wMitm
	var perLine [][]*wMitm
	for _, d := range []string{"c2s", "s2c"} {
		log, stream := w0.c2s[0].Log, w0.c2s[0].Written
		if d == "s2c" {
			log, stream = w0.s2c[0].Log, w0.s2c[0].Written
		}
		if p.W.Tunnel {
			if d == "c2s" {
				log, stream = res0.TunLogC2S, res0.TunC2S
			} else {
				log, stream = res0.TunLogS2C, res0.TunS2C
			}
		}
		for _, l := range c12Lines(log, stream) {
			cs := c12Cases(d, l, p.W.Binary)
			cases = append(cases, cs...)
			perLine = append(perLine, cs)
		}
	}
	r.Max("substitution_cases", float64(len(cases)))
	seen := map[string]bool{}
	for i, m := range cases {
		if i%p.NShards != p.Shard {
			continue
		}
		if j.Deadline > 0 && time.Now().Unix() > j.Deadline {
			r.Capped = "deadline"
			break
		}
		wp := p.W
		wp.Mitm = m
		_, res, v, o := runOne(wp, false)
		r.Execs++
		r.Steps += int64(res.Sched.Steps)
		for h := range res.Sched.Finger {
			states[h] = struct{}{}
		}
		r.Outcomes[o]++
		if o != "success" {
			r.Nontrivial++
		}
		if len(r.Samples) < 3 && o == "error-reported" {
			r.Samples = append(r.Samples, fmt.Sprintf("%s line %d field %s := %q -> %s", m.Dir, m.Line, m.Field, clipStr(m.Value, 40), clipStr(serverSaid(res.SrvStdout), 80)))
		}
		if v != "" {
			sig := fmt.Sprintf("c12:%s:%s:%s:%s", wp.Dir, m.Dir, m.Field, firstWords(v, 7))
			if !seen[sig] {
				seen[sig] = true
				wpc := wp
				r.Violations = append(r.Violations, vs.Violation{Desc: fmt.Sprintf("%s: %s", wp.String(), v), Signature: sig, Detail: wpc, Exec: r.Execs})
			}
			unknown := 0
			for _, x := range r.Violations {
				if !vs.IsKnown("C12", x.Signature) {
					unknown++
				}
			}
			if unknown >= 6 {
				break
			}
		}
	}
	for h := range states {
		r.States = append(r.States, h)
	}
	return r
}

func init() {
	vs.Register(&vs.Check{
		ID:    "C12",
		Level: "fault_enumeration",
		Rule: "(i) per configuration, every protocol line of the recorded transcript x every field (message type, integer, both halves of len/step acks, raw payload, decoded string, every JSON member present or absent) x boundary values " +
			"{-2^63,-1,0,1,v+-1,2^31,2^62,2^63-1,overflow,non-numeric,empty,10 kB,wrong JSON type,truncated JSON,invalid base64,invalid zlib,truncated zstd}; (ii) every token string up to length 4 over the scanner alphabets for 10 scanners (among them the line reader itself); (iii) every member of an archive entry header x JSON boundary values (or absent) x 3 payloads x cuts around the header end, on the real archive writer; " +
			"non-trivial = the modified transfer did not simply succeed",
		Assumptions: []string{"allocation attributable to a run = runtime.MemStats.TotalAlloc delta, limit 64 MiB + 8 x bytes on the wire; ulimit -v on the worker is the hard backstop and a dead worker is a violation",
			"'session usable' is probed after the transfer: a server text must reach the terminal and typed input must reach the server"},
		QuickBudget: 110, ThoroughBudget: 1200, DiedIsViolation: true,
		Jobs: func(tier string) []vs.Job {
			var cfgs []wParams
			for _, dir := range []string{"up", "down"} {
				cfgs = append(cfgs, wParams{Dir: dir, Tree: "one:R:21000", Timeout: 3, Columns: 80})
				cfgs = append(cfgs, wParams{Dir: dir, Tree: "dir", Directory: true, Timeout: 3, Columns: 80})
				cfgs = append(cfgs, wParams{Dir: dir, Tree: "one:E:300", Overwrite: true, DstPre: "c08:longer:7@3", Protocol: 3, Timeout: 3, Quiet: true})
				// a resumed transfer with the progress display attached: 192 bytes proven equal, 108 to go
				// (120 ms of latency per message, or the display's 200 ms redraw throttle hides every step but the first)
				cfgs = append(cfgs, wParams{Dir: dir, Tree: "one:E:300", Overwrite: true, DstPre: "c08:shorter:100@-1", HashStep: 64, Timeout: 3, Columns: 80, LatencyMs: 120})
				cfgs = append(cfgs, wParams{Dir: dir, Tree: "one:R:21000", Timeout: 3, Columns: 80, LatencyMs: 120})
				// an empty first file, and one whose base64 form is exactly one 10240-character buffer: no tail chunk after the last full one
				cfgs = append(cfgs, wParams{Dir: dir, Tree: "one:T:0", Timeout: 3, Columns: 80})
				cfgs = append(cfgs, wParams{Dir: dir, Tree: "one:R:7680", Compress: 2, Timeout: 3, Quiet: true})
				if tier == "thorough" {
					cfgs = append(cfgs, wParams{Dir: dir, Tree: "small3", Protocol: 2, Timeout: 3, Columns: 80})
					cfgs = append(cfgs, wParams{Dir: dir, Tree: "small3", Protocol: 1, Timeout: 3, Quiet: true})
					cfgs = append(cfgs, wParams{Dir: dir, Tree: "small3", Binary: true, Tunnel: true, Timeout: 3, Columns: 80})
					cfgs = append(cfgs, wParams{Dir: dir, Tree: "one:E:3000", Binary: true, EscapeAll: dir == "up", Timeout: 3, Columns: 80})
					cfgs = append(cfgs, wParams{Dir: dir, Tree: "dir", Directory: true, Protocol: 3, Timeout: 3, Columns: 80})
					cfgs = append(cfgs, wParams{Dir: dir, Tree: "one:E:3000", Binary: true, Protocol: 1, Timeout: 3, Columns: 80})
				}
			}
			var jobs []vs.Job
			for _, c := range cfgs {
				n := 8
				for s := 0; s < n; s++ {
					jobs = append(jobs, vs.MkJob(fmt.Sprintf("mitm %s %d/%d", c.String(), s, n), c12Params{W: c, Shard: s, NShards: n}))
				}
			}
			for _, sc := range c12ScannerNames {
				jobs = append(jobs, vs.MkJob("scanner "+sc, c12Params{Scanner: sc}))
			}
			return jobs
		},
		Run: c12Run,
	})
}
