package trzsz

// The "world" driver (DESIGN.md §2.4): a real TrzszFilter, wires, 0..2 real relays and a replica of
// the tail of TrzMain / TszMain running the real recvFiles / sendFiles, all under the scheduler in
// virtual time. One call of runWorld is one execution.

import (
	"bytes"
	"compress/zlib"
	"crypto/sha256"
	"encoding/base64"
	"encoding/hex"
	"encoding/json"
	"fmt"
	"io"
	"io/fs"
	"net"
	"os"
	"path/filepath"
	"sort"
	"strings"
	"syscall"
	"time"
	"unicode/utf8"

	vs "github.com/trzsz/trzsz-go/zzverif/vsched"
)

type wParams struct {
	Dir       string `json:"dir"` // "up" (client uploads, server runs trz) | "down" (server runs tsz)
	Binary    bool   `json:"binary,omitempty"`
	EscapeAll bool   `json:"escape,omitempty"`
	Compress  int    `json:"compress,omitempty"` // 0 auto, 1 yes, 2 no
	Protocol  int    `json:"protocol,omitempty"` // 0 = native (4); 2 = old server version trigger; 1,3 = man in the middle on ACT
	Bufsize   int64  `json:"bufsize,omitempty"`
	Overwrite bool   `json:"overwrite,omitempty"`
	Directory bool   `json:"directory,omitempty"`
	WinNL     string `json:"winnl,omitempty"` // "!\n" framing: "client" (client affected by Windows) | "server" (server runs on Windows)
	Tunnel    bool   `json:"tunnel,omitempty"`
	Fork      bool   `json:"fork,omitempty"`
	Relays    int    `json:"relays,omitempty"`
	Quiet     bool   `json:"quiet,omitempty"`
	LatencyMs int    `json:"latency_ms,omitempty"`
	Timeout   int    `json:"timeout,omitempty"` // seconds; 0 = default 20
	Columns   int    `json:"columns,omitempty"`

	Stop      *wStop       `json:"stop,omitempty"`   // user stop pinned to a scheduling point
	Stops     []wStop      `json:"stops,omitempty"`  // further stop events (e.g. the server interrupted while the client's menu is open)
	Pauses    []wPause     `json:"pauses,omitempty"` // pause/resume cycles on the client
	Mitm      *wMitm       `json:"mitm,omitempty"`   // field-aware substitution in one protocol line
	MsgFaults []wMsgFault  `json:"msgfaults,omitempty"`
	Local     *wLocalFault `json:"local,omitempty"`
	WireCap   int          `json:"wirecap,omitempty"`   // bytes of back-pressure on the wires (0 = unbounded)
	Faults    []wFault     `json:"faults,omitempty"`    // byte-level faults on the connection (wire next to the client, or the tunnel)
	Probe     bool         `json:"probe,omitempty"`     // after the transfer, check that the session passes bytes through again
	RawClient bool         `json:"rawclient,omitempty"` // uploads: raw sending client built from product functions instead of the filter
	FdLimit   int          `json:"fdlimit,omitempty"`   // RLIMIT_NOFILE during the execution (0 = unchanged)
	// ServerNoListen: in a world with tunnel connectors, this transfer's server could not open its listener
	// (listenForTunnel returned nothing): the transfer runs in-band. Also honoured per follow-up transfer.
	ServerNoListen bool  `json:"server_no_listen,omitempty"`
	HashStep       int64 `json:"hash_step,omitempty"` // >0: the prefix-hash block for this run (rule R11), default the real 10 MiB

	DstRoot string `json:"dstroot,omitempty"` // use (and keep) this destination directory instead of a fresh one
	// DstSame (follow-up transfers): into the destination of the previous transfer instead of a fresh one
	DstSame bool `json:"dstsame,omitempty"`
	// RelayConnector "hang": the relays' own tunnel connector blocks for 30 s and then fails
	RelayConnector string `json:"relay_connector,omitempty"`
	// DstNested: the destination is <scratch>/nest/2024/incoming, three otherwise empty levels
	DstNested bool `json:"dstnested,omitempty"`

	Kind string    `json:"kind,omitempty"` // "", "refuse", "badpath" (see applyKind)
	Then []wParams `json:"then,omitempty"` // follow-up transfers through the same world (only Dir, Tree, Directory, Overwrite, Kind, Local, Stop are used)

	Tree   string `json:"tree"`             // source tree recipe
	DstPre string `json:"dstpre,omitempty"` // destination pre-population recipe
	Seg    string `json:"seg,omitempty"`    // "", "byte", "coalesce", "cut:<c2s|s2c>:<offset>[+<offset>...]" (read boundaries at these stream offsets, ascending)
}

// wStop is a user stop (client: Ctrl-C + a stop choice, i.e. StopTransferringFiles; server: SIGINT)
// delivered just before scheduler step Step.
type wStop struct {
	Side   string `json:"side"` // client | server | wire (a failure line from the peer appears on the wire next to the client)
	Delete bool   `json:"delete,omitempty"`
	Step   int    `json:"step"`
	// AtMs > 0: delivered that long (virtual) after the transfer began instead of before scheduler step Step.
	AtMs int `json:"at_ms,omitempty"`
	// Via "keys" (client only): the user types Ctrl-C — the product pauses the transfer and opens its
	// stop/continue menu (rule R14 models the menu library) — and answers ChoiceMs (default 300) later:
	// keep / delete / continue. With a server older than 1.1.4 the Ctrl-C stops at once, as the product does.
	Via      string `json:"via,omitempty"`
	ChoiceMs int    `json:"choice_ms,omitempty"`
	Continue bool   `json:"continue,omitempty"`
}

// wPause pauses the client's transfer just before scheduler step Step and resumes it ForMs of
// virtual time later (what the stop/continue prompt does: pauseTransferringFiles ... resumeTransferringFiles).
type wPause struct {
	Step  int `json:"step"`
	ForMs int `json:"for_ms"`
	// AtMs > 0: the pause begins that long (virtual) after the transfer started instead of before step Step.
	AtMs int `json:"at_ms,omitempty"`
	// AgainAfterMs > 0: a second pause of the same length begins that long after the first one ended.
	AgainAfterMs int `json:"again_after_ms,omitempty"`
	// AgainForMs > 0: the second pause lasts that long instead.
	AgainForMs int `json:"again_for_ms,omitempty"`
}

// wMitm replaces one field of the Line-th protocol line of a direction (0-based, counting lines that
// start with '#').
type wMitm struct {
	Dir   string `json:"dir"`
	Line  int    `json:"line"`
	Field string `json:"field"` // "type" | "raw" (whole payload as is) | "int" | "int0" | "int1" (a/b acks) | "inner" (decoded string) | "json:<member>" | "binsize"
	Value string `json:"value"` // replacement; for json members a JSON literal
}

// mitmFilter applies m to the stream written to a wire. Lines are recognised per written chunk
// (the product writes whole lines), binary payloads pass through.
func mitmFilter(m *wMitm, dir string) func([]byte) []byte {
	if m == nil || m.Dir != dir {
		return nil
	}
	line := 0
	skip := 0 // bytes of a binary payload still to pass through
	return func(b []byte) []byte {
		if skip > 0 {
			if len(b) <= skip {
				skip -= len(b)
				return b
			}
			skip = 0
		}
		if len(b) == 0 || b[0] != '#' {
			return b
		}
		colon := bytes.IndexByte(b, ':')
		end := bytes.IndexAny(b, "!\n")
		if colon < 0 {
			return b
		}
		if end < 0 {
			end = len(b)
		}
		my := line
		line++
		typ, payload, tail := string(b[1:colon]), string(b[colon+1:end]), string(b[end:])
		if my != m.Line {
			return b
		}
		mk := func(t, p string) []byte { return []byte("#" + t + ":" + p + tail) }
		switch {
		case m.Field == "type":
			return mk(m.Value, payload)
		case m.Field == "raw" || m.Field == "int" || m.Field == "binsize":
			return mk(typ, m.Value)
		case m.Field == "int0" || m.Field == "int1":
			parts := strings.SplitN(payload, "/", 2)
			if len(parts) == 2 {
				if m.Field == "int0" {
					parts[0] = m.Value
				} else {
					parts[1] = m.Value
				}
				return mk(typ, parts[0]+"/"+parts[1])
			}
			return b
		case m.Field == "inner":
			return mk(typ, encodeString(m.Value))
		case strings.HasPrefix(m.Field, "json:"):
			raw, err := decodeString(payload)
			if err != nil {
				return b
			}
			var obj map[string]json.RawMessage
			if json.Unmarshal(raw, &obj) != nil {
				return b
			}
			obj[m.Field[5:]] = json.RawMessage(m.Value)
			j, err := json.Marshal(obj)
			if err != nil {
				return b
			}
			return mk(typ, encodeString(string(j)))
		}
		return b
	}
}

// wMsgFault is a message-level connection fault: from the k-th written chunk of a direction on, the
// chunks are dropped silently ("silence"), or the writer gets an error ("werr").
type wMsgFault struct {
	Dir  string `json:"dir"`
	K    int    `json:"k"`
	Kind string `json:"kind"` // silence | werr | slow[:<ms>] (the k-th write of that direction takes 1.2 s, or <ms>: a congested link, a full pty buffer)
}

// wLocalFault is a local I/O failure at the k-th call of an R9 hook on one side.
type wLocalFault struct {
	Side string `json:"side"` // "client" | "server" (the side whose thread makes the call)
	Hook string `json:"hook"` // fileWrite | fileRead | archiveRead | archiveWrite
	K    int    `json:"k"`
	Kind string `json:"kind"` // "err" (the call fails) | "shrink" (the source file is truncated on disk just before the call) | "slow" (the call takes 1 s) | "slowerr" (the call takes 1 s and then fails)
}

// wFault is one byte-level fault at an absolute offset of one direction of the connection.
type wFault struct {
	Dir  string `json:"dir"`  // "c2s" | "s2c"
	Off  int    `json:"off"`  // offset in the unfaulted stream of that direction
	Kind string `json:"kind"` // flip0 flip5 del dup insnl insA trunc dupline delline cut0 cuthalf
}

// faultFilter applies the faults of one direction to the chunks written to a wire.
func faultFilter(faults []wFault, dir string) func([]byte) []byte {
	var mine []wFault
	for _, f := range faults {
		if f.Dir == dir {
			mine = append(mine, f)
		}
	}
	if len(mine) == 0 {
		return nil
	}
	pos := 0
	dead := false
	return func(b []byte) []byte {
		start := pos
		pos += len(b)
		if dead {
			return nil
		}
		out := b
		copied := false
		shift := 0 // how much earlier insertions/deletions in this chunk moved later offsets
		for _, f := range mine {
			if f.Off < start || f.Off >= start+len(b) {
				continue
			}
			if !copied {
				out = append([]byte(nil), b...)
				copied = true
			}
			i := f.Off - start + shift
			switch f.Kind {
			case "flip0":
				out[i] ^= 0x01
			case "flip5":
				out[i] ^= 0x20
			case "del":
				out = append(out[:i], out[i+1:]...)
				shift--
			case "dup":
				out = append(out[:i+1], out[i:]...)
				shift++
			case "insnl":
				out = append(out[:i], append([]byte{'\n'}, out[i:]...)...)
				shift++
			case "insA":
				out = append(out[:i], append([]byte{'A'}, out[i:]...)...)
				shift++
			case "dupline", "delline":
				// a whole protocol line (from this offset up to and including its LF, within this write) repeated / lost
				j := bytes.IndexByte(out[i:], '\n')
				if j < 0 {
					j = len(out) - i - 1
				}
				line := append([]byte(nil), out[i:i+j+1]...)
				if f.Kind == "dupline" {
					out = append(out[:i+j+1], append(line, out[i+j+1:]...)...)
					shift += len(line)
				} else {
					out = append(out[:i], out[i+j+1:]...)
					shift -= len(line)
				}
			case "cut0", "cuthalf":
				// message-level fault: the line's encoded payload is replaced by a well-formed encoding of a
				// prefix (nothing / the first half) of what it carried; lines whose payload is not an encoding stay as they are
				j := bytes.IndexByte(out[i:], '\n')
				if j < 0 {
					continue
				}
				if nl := recodePrefix(out[i:i+j], f.Kind == "cuthalf"); nl != nil {
					shift += len(nl) - j
					out = append(append(append([]byte(nil), out[:i]...), nl...), out[i+j:]...)
				}
			case "trunc":
				out = out[:i]
				dead = true
				return out
			}
		}
		return out
	}
}

// recodePrefix: "#TYPE:<base64(zlib(x))>" -> "#TYPE:<base64(zlib(prefix of x))>", nil when the payload is not such an encoding.
// The encoder is the injector's own (compress/zlib + base64), not the product's.
func recodePrefix(line []byte, half bool) []byte {
	c := bytes.IndexByte(line, ':')
	if c < 0 || len(line) == 0 || line[0] != '#' {
		return nil
	}
	raw, err := base64.StdEncoding.DecodeString(strings.TrimRight(string(line[c+1:]), "\r"))
	if err != nil {
		return nil
	}
	zr, err := zlib.NewReader(bytes.NewReader(raw))
	if err != nil {
		return nil
	}
	x, err := io.ReadAll(zr)
	if err != nil || len(x) == 0 {
		return nil
	}
	keep := 0
	if half {
		keep = len(x) / 2
	}
	var b bytes.Buffer
	zw := zlib.NewWriter(&b)
	zw.Write(x[:keep])
	zw.Close()
	return append(append([]byte(nil), line[:c+1]...), base64.StdEncoding.EncodeToString(b.Bytes())...)
}

func chainFilters(fs ...func([]byte) []byte) func([]byte) []byte {
	var live []func([]byte) []byte
	for _, f := range fs {
		if f != nil {
			live = append(live, f)
		}
	}
	if len(live) == 0 {
		return nil
	}
	return func(b []byte) []byte {
		for _, f := range live {
			if b = f(b); b == nil {
				return nil
			}
		}
		return b
	}
}

func (p wParams) String() string {
	b, _ := json.Marshal(p)
	return string(b)
}

// ---------- deterministic content ----------

func genContent(kind byte, seed, n int) []byte {
	b := make([]byte, n)
	switch kind {
	case 'T': // compressible text
		pat := []byte(fmt.Sprintf("line %d of the quick brown fox jumps over the lazy dog\n", seed))
		for i := range b {
			b[i] = pat[i%len(pat)]
		}
	case 'U': // well-formed UTF-8 text whose multi-byte characters contain the 8-bit protected bytes and the escape leader
		pat := []byte(fmt.Sprintf("Привет, Наташа! Ñandú Ññ \ue0b0 \u008d\u0090\u0091\u0093\u009d строка %d\n", seed))
		for i := range b {
			b[i] = pat[i%len(pat)]
		}
		for k := len(b); k > 0 && !utf8.Valid(b); k-- { // do not end inside a character
			b[k-1] = '.'
		}
	case 'E': // every byte value, heavy on the ones the escape tables care about
		pat := []byte{0xee, 0x7e, 0x0d, 0x10, 0x11, 0x13, 0x18, 0x1b, 0x1d, 0x8d, 0x90, 0x91, 0x93, 0x9d, 0x02, 0xee, 0xee, 0x31, 0x41, 0x00, 0xff, '\n', '!'}
		for i := range b {
			if i%3 == 0 {
				b[i] = pat[(i/3+seed)%len(pat)]
			} else {
				b[i] = byte(i*7 + seed)
			}
		}
	default: // incompressible (LCG)
		x := uint32(seed)*2654435761 + 12345
		for i := range b {
			x = x*1664525 + 1013904223
			b[i] = byte(x >> 24)
		}
	}
	return b
}

type treeEntry struct {
	Path string // relative, '/' separated
	Dir  bool
	Data []byte
}

// treeRecipe returns the entries of a named source tree and the top-level paths to transfer.
func treeRecipe(name string) (entries []treeEntry, tops []string) {
	file := func(p string, kind byte, seed, n int) {
		entries = append(entries, treeEntry{Path: p, Data: genContent(kind, seed, n)})
	}
	dir := func(p string) { entries = append(entries, treeEntry{Path: p, Dir: true}) }
	var size int
	switch {
	case strings.HasPrefix(name, "one:"): // one:<kind>:<size>
		var kind string
		parts := strings.Split(name, ":")
		kind = parts[1]
		fmt.Sscanf(parts[2], "%d", &size)
		file("f.bin", kind[0], size, size)
		tops = []string{"f.bin"}
	case name == "small3":
		file("a.txt", 'T', 1, 700)
		file("b.bin", 'R', 2, 1500)
		file("c.esc", 'E', 3, 400)
		tops = []string{"a.txt", "b.bin", "c.esc"}
	case name == "unicode":
		file("héllo wörld ☃.txt", 'T', 4, 300)
		file("数据.bin", 'R', 5, 1100)
		tops = []string{"héllo wörld ☃.txt", "数据.bin"}
	case name == "dir":
		dir("d")
		file("d/x.txt", 'T', 6, 900)
		dir("d/empty")
		dir("d/sub")
		file("d/sub/y.bin", 'R', 7, 2100)
		file("d/sub/z", 'E', 8, 0)
		tops = []string{"d"}
	case name == "dir2":
		dir("d")
		file("d/x.txt", 'T', 6, 300)
		dir("d/sub")
		file("d/sub/y.bin", 'R', 7, 600)
		file("top.txt", 'T', 9, 200)
		tops = []string{"d", "top.txt"}
	case name == "emptytop": // a top-level directory without children, and a file
		dir("spool")
		file("note.txt", 'T', 19, 250)
		tops = []string{"spool", "note.txt"}
	case name == "samebase": // the same base name twice, from two directories
		dir("p1")
		dir("p2")
		file("p1/same.txt", 'T', 10, 500)
		file("p2/same.txt", 'R', 11, 800)
		tops = []string{"p1/same.txt", "p2/same.txt"}
	case name == "dirsame": // two directories with the same base name, from two places
		dir("q1")
		dir("q2")
		dir("q1/same")
		dir("q2/same")
		file("q1/same/one.txt", 'T', 16, 600)
		file("q2/same/two.bin", 'R', 17, 900)
		dir("q2/same/sub")
		file("q2/same/sub/three", 'E', 18, 50)
		tops = []string{"q1/same", "q2/same"}
	case name == "prefixnames": // names that are string prefixes of one another
		file("lib", 'T', 13, 700)
		file("lib64", 'R', 14, 1500)
		file("lib64.bak", 'E', 15, 400)
		tops = []string{"lib", "lib64", "lib64.bak"}
	case strings.HasPrefix(name, "longname:"): // one file whose name is n bytes long
		fmt.Sscanf(name[9:], "%d", &size)
		n := strings.Repeat("L", size)
		file(n, 'T', 12, 50)
		tops = []string{n}
	case strings.HasPrefix(name, "many:"): // many:<n> tiny files
		fmt.Sscanf(name[5:], "%d", &size)
		for i := 0; i < size; i++ {
			p := fmt.Sprintf("m%03d.txt", i)
			file(p, 'T', i, 10+i%7)
			tops = append(tops, p)
		}
	case strings.HasPrefix(name, "manydir:"): // one directory with n tiny files
		fmt.Sscanf(name[8:], "%d", &size)
		dir("big")
		for i := 0; i < size; i++ {
			file(fmt.Sprintf("big/m%03d.txt", i), 'T', i, 10+i%7)
		}
		tops = []string{"big"}
	default:
		panic("unknown tree " + name)
	}
	return
}

func writeTree(root string, entries []treeEntry) {
	for _, e := range entries {
		p := filepath.Join(root, filepath.FromSlash(e.Path))
		if e.Dir {
			must(os.MkdirAll(p, 0o755))
		} else {
			must(os.MkdirAll(filepath.Dir(p), 0o755))
			must(os.WriteFile(p, e.Data, 0o644))
		}
	}
}

func must(err error) {
	if err != nil {
		panic(err)
	}
}

// snapshot maps relative path -> "dir" or "file:<size>:<sha256>".
func snapshot(root string) map[string]string {
	m := map[string]string{}
	filepath.WalkDir(root, func(p string, d fs.DirEntry, err error) error {
		if err != nil || p == root {
			return nil
		}
		rel, _ := filepath.Rel(root, p)
		rel = filepath.ToSlash(rel)
		if d.IsDir() {
			m[rel] = "dir"
			return nil
		}
		b, err := os.ReadFile(p)
		if err != nil {
			m[rel] = "unreadable:" + err.Error()
			return nil
		}
		h := sha256.Sum256(b)
		m[rel] = fmt.Sprintf("file:%d:%s", len(b), hex.EncodeToString(h[:8]))
		return nil
	})
	return m
}

// snapshotFull additionally records permission bits and, for files, the modification time.
func snapshotFull(root string) map[string]string {
	m := snapshot(root)
	for k, v := range m {
		st, err := os.Lstat(filepath.Join(root, filepath.FromSlash(k)))
		if err != nil {
			continue
		}
		if st.IsDir() {
			m[k] = fmt.Sprintf("%s:%o", v, st.Mode().Perm())
		} else {
			m[k] = fmt.Sprintf("%s:%o:%d", v, st.Mode().Perm(), st.ModTime().UnixNano())
		}
	}
	return m
}

func snapDiff(want, got map[string]string) string {
	var d []string
	for k, v := range want {
		if g, ok := got[k]; !ok {
			d = append(d, "missing "+k)
		} else if g != v {
			d = append(d, fmt.Sprintf("%s: want %s got %s", k, v, g))
		}
	}
	for k := range got {
		if _, ok := want[k]; !ok {
			d = append(d, "unexpected "+k+" ("+got[k]+")")
		}
	}
	sort.Strings(d)
	if len(d) > 6 {
		d = append(d[:6], fmt.Sprintf("… %d more", len(d)-6))
	}
	return strings.Join(d, "; ")
}

// ---------- the world ----------

type world struct {
	p                wParams
	localN           int    // how often the hook named by p.Local was reached on that side
	attackerAnswered string // set by a stranger thread that got an answer it must not get
	pendingChoices   int    // Ctrl-C typed, menu not yet answered
	root             string // scratch root of this execution
	srcRoot          string
	dstRoot          string
	tops             []string
	entries          []treeEntry
	keys             *vs.Pipe   // user typing
	term             *vs.Sink   // local terminal
	c2s, s2c         []*vs.Pipe // wires, index 0 next to the client
	filter           *TrzszFilter
	relays           []*TrzszRelay
	stdout           *os.File // what the server's process prints to its stdout outside the transfer writer

	srvTransfer                *trzszTransfer
	srvStarted                 bool
	srvDone                    bool
	srvErr                     error
	srvDoneAt                  time.Duration
	cliStartAt                 time.Duration
	cliDoneAt                  time.Duration
	cliDone                    bool
	srvDoneStep                int
	cliDoneStep                int
	uploadRes                  <-chan error
	uploadErr                  string
	probeN                     int
	srvGen                     int
	srvExited                  bool
	markS2C0                   int
	markC2S, markS2C, markTerm int // where the current transfer's bytes begin in the logs
	stopAt                     time.Duration
	stopHit                    bool
	stopTransfer               *trzszTransfer
	pauseHits                  int
	pauseLog                   []pauseRec

	hookErr func(name string, args ...any) error
	// hostile-peer support (C09, C12): doctored source records instead of a scan of the source tree,
	// and a raw sending client assembled from the product's own functions instead of the filter
	srcOverride []*sourceFile
	rawClient   bool
	rawErr      error
	rawDone     bool
	pre         map[string]string // full snapshot of the destination before the transfer
}

type worldResult struct {
	Sched                  *vs.Sched
	SrvDone                bool
	SrvErr                 string
	SrvStdout              string
	Term                   string
	C2S, S2C               []byte // wire next to the server
	SrvTunGot              []byte // what arrived at the server's end of the tunnel
	ClientGot              []byte // everything that reached the client (in-band and tunnel)
	TunMsgsC2S, TunMsgsS2C int
	TunLogC2S              []vs.Stamp
	TunC2S, TunS2C         []byte // tunnel connection next to the client (if any)
	ClientExit             string // decoded #EXIT: message the client sent ("" if none)
	ClientFail             string // decoded #fail:/#FAIL: message the client sent
	ServerFail             string // decoded fail message the server sent
	Dst                    map[string]string
	DstFull                map[string]string
	Outside                map[string]string // everything in the execution's scratch root except the destination
	Alive                  []string
	SrvDoneAt              time.Duration
	CliDone                bool
	StopAt                 time.Duration
	Pauses                 []pauseRec
	KeepAlives             []time.Duration
	StepsAtDone            int    // scheduler step at which the later of the two sides was done
	ClientSent             []byte // everything the client wrote towards the server (in-band and tunnel)
	ServerSent             []byte
	StopHit                bool // the stop arrived while a transfer was in progress on that side
	StopCleanTimeout       time.Duration
	CliDoneAt              time.Duration
	End                    time.Duration
	Transferring           bool // filter still thinks a transfer is in progress at the end
	Params                 wParams
	MarkC2S, MarkS2C0      int            // where this transfer's bytes begin on the wire next to the client
	Next                   []*worldResult // follow-up transfers
	ProbeOut               string         // "ok", or what went wrong with the transparency probe after the transfer
	TunLogS2C              []vs.Stamp
	Quiet                  bool // the world went quiescent (false: something was still running when the observation was taken)
}

var worldScratch string // per worker process
var worldSeq int
var worldStdoutFile *os.File
var realStdout, realStdin, realStderr = os.Stdout, os.Stdin, os.Stderr

func scratchDir() string {
	if worldScratch == "" {
		base := os.Getenv("TMPDIR")
		if base == "" {
			base = "/dev/shm"
		}
		d, err := os.MkdirTemp(base, "w")
		must(err)
		worldScratch = d
	}
	return worldScratch
}

// sharedTree writes a source tree once per worker process and returns its root.
var sharedTrees = map[string]string{}

func sharedTree(name string) (string, []treeEntry, []string) {
	entries, tops := treeRecipe(name)
	if r, ok := sharedTrees[name]; ok {
		return r, entries, tops
	}
	r := filepath.Join(scratchDir(), fmt.Sprintf("src%d", len(sharedTrees)))
	must(os.MkdirAll(r, 0o755))
	writeTree(r, entries)
	sharedTrees[name] = r
	return r, entries, tops
}

// segFunc returns the segmentation policy of the wire next to the client. The trigger line itself is
// always delivered in one read (the detector works per read by design, C06/C19), so policies only
// apply once it has passed.
func (w *world) segFunc(dir string) func(p *vs.Pipe, n, max int) int {
	f := w.segFunc0(dir)
	if f == nil || dir != "s2c" {
		return f
	}
	return func(p *vs.Pipe, n, max int) int {
		if p.Consumed == 0 {
			if n > max {
				return max
			}
			return n
		}
		return f(p, n, max)
	}
}

func (w *world) segFunc0(dir string) func(p *vs.Pipe, n, max int) int {
	switch {
	case w.p.Seg == "byte":
		return func(p *vs.Pipe, n, max int) int { return 1 }
	case w.p.Seg == "coalesce":
		return func(p *vs.Pipe, n, max int) int { return max }
	case strings.HasPrefix(w.p.Seg, "cut:"+dir+":"):
		var offs []int
		for _, f := range strings.Split(w.p.Seg[len("cut:"+dir+":"):], "+") {
			var off int
			fmt.Sscanf(f, "%d", &off)
			offs = append(offs, off)
		}
		return func(p *vs.Pipe, n, max int) int {
			for _, off := range offs { // ascending
				if p.Consumed < off && off < p.Consumed+n {
					return off - p.Consumed
				}
			}
			return n
		}
	}
	return nil
}

// buildWorld creates the scratch directories, the wires, the relays and the client filter.
func buildWorld(p wParams) *world {
	w := &world{p: p}
	worldSeq++
	w.root = filepath.Join(scratchDir(), fmt.Sprintf("x%d", worldSeq))
	w.dstRoot = filepath.Join(w.root, "dst")
	if p.DstRoot != "" {
		w.dstRoot = p.DstRoot
	}
	if p.DstNested {
		w.dstRoot = filepath.Join(w.root, "nest", "2024", "incoming")
	}
	must(os.MkdirAll(w.dstRoot, 0o755))
	w.srcRoot, w.entries, w.tops = sharedTree(p.Tree)
	if p.Local != nil && p.Local.Kind == "shrink" {
		w.srcRoot = filepath.Join(w.root, "src")
		writeTree(w.srcRoot, w.entries)
	}
	if p.DstPre != "" {
		prepopNames = nil
		for _, t := range w.tops {
			prepopNames = append(prepopNames, t[strings.LastIndex(t, "/")+1:])
		}
		prepopulate(w.dstRoot, p.DstPre, w.entries)
	}
	w.pre = snapshotFull(w.dstRoot)
	if worldStdoutFile == nil {
		f, err := os.OpenFile(filepath.Join(scratchDir(), "stdout"), os.O_RDWR|os.O_CREATE|os.O_TRUNC, 0o644)
		must(err)
		worldStdoutFile = f
	}
	worldStdoutFile.Truncate(0)
	worldStdoutFile.Seek(0, 0)
	w.stdout = worldStdoutFile
	os.Stdout = worldStdoutFile
	if p.Fork {
		// switchToBackground closes the process's stdin and stderr: give it files of its own
		in, err := os.Open(os.DevNull)
		must(err)
		er, err := os.OpenFile(os.DevNull, os.O_WRONLY, 0)
		must(err)
		os.Stdin, os.Stderr = in, er
	}

	w.keys = vs.NewPipe("keys")
	w.term = vs.NewSink("term")
	for i := 0; i <= p.Relays; i++ {
		c, s := vs.NewPipe(fmt.Sprintf("c2s%d", i)), vs.NewPipe(fmt.Sprintf("s2c%d", i))
		if p.LatencyMs > 0 && i == 0 {
			c.Delay = time.Duration(p.LatencyMs) * time.Millisecond
			s.Delay = c.Delay
		}
		w.c2s = append(w.c2s, c)
		w.s2c = append(w.s2c, s)
	}
	w.c2s[0].Seg = w.segFunc("c2s")
	w.s2c[0].Seg = w.segFunc("s2c")
	var actMitm func([]byte) []byte
	if p.Protocol == 1 || p.Protocol == 3 {
		actMitm = mitmActProtocol(p.Protocol)
	}
	msgFilter := func(dir string) func([]byte) []byte {
		for _, f := range p.MsgFaults {
			if f.Dir == dir && strings.HasPrefix(f.Kind, "slow") {
				k, n := f.K, 0
				ms := 1200
				if i := strings.IndexByte(f.Kind, ':'); i > 0 {
					fmt.Sscanf(f.Kind[i+1:], "%d", &ms)
				}
				return func(b []byte) []byte {
					n++
					if n == k {
						vs.Sleep(time.Duration(ms) * time.Millisecond) // the writer is held in this write
					}
					return b
				}
			}
			if f.Dir == dir && f.Kind == "silence" {
				k, n := f.K, 0
				return func(b []byte) []byte {
					n++
					if n > k {
						return nil
					}
					return b
				}
			}
		}
		return nil
	}
	werr := func(dir string) func(int, []byte) error {
		for _, f := range p.MsgFaults {
			if f.Dir == dir && f.Kind == "werr" {
				k := f.K
				return func(i int, b []byte) error {
					if i >= k {
						return fmt.Errorf("write: connection reset by peer")
					}
					return nil
				}
			}
		}
		return nil
	}
	if p.Tunnel {
		// with a tunnel the transfer's bytes travel over the connection nearest to the client
		vs.OnDial = func(cli, srv *vs.Conn) {
			if cli.Tag == "client" {
				cli.OutPipe().Filter = chainFilters(actMitm, mitmFilter(p.Mitm, "c2s"), faultFilter(p.Faults, "c2s"), msgFilter("c2s"))
				srv.OutPipe().Filter = chainFilters(mitmFilter(p.Mitm, "s2c"), faultFilter(p.Faults, "s2c"), msgFilter("s2c"))
				cli.OutPipe().WriteErr, srv.OutPipe().WriteErr = werr("c2s"), werr("s2c")
				cli.OutPipe().Cap, srv.OutPipe().Cap = p.WireCap, p.WireCap
			}
		}
	} else {
		w.c2s[0].Filter = chainFilters(actMitm, mitmFilter(p.Mitm, "c2s"), faultFilter(p.Faults, "c2s"), msgFilter("c2s"))
		w.s2c[0].Filter = chainFilters(mitmFilter(p.Mitm, "s2c"), faultFilter(p.Faults, "s2c"), msgFilter("s2c"))
		w.c2s[0].WriteErr, w.s2c[0].WriteErr = werr("c2s"), werr("s2c")
	}
	for i := range w.c2s {
		w.c2s[i].Cap, w.s2c[i].Cap = p.WireCap, p.WireCap
	}
	for i := 0; i < p.Relays; i++ {
		r := NewTrzszRelay(w.c2s[i], w.s2c[i], w.c2s[i+1], w.s2c[i+1], TrzszOptions{})
		if p.Tunnel {
			tag := fmt.Sprintf("relay%d", i)
			if p.RelayConnector == "hang" {
				// the jump host cannot reach the server's port and finds out only after 30 s
				r.SetTunnelConnector(func(port int) net.Conn { vs.Sleep(30 * time.Second); return nil })
			} else {
				r.SetTunnelConnector(func(port int) net.Conn { return dialOrNil(port, tag) })
			}
		}
		w.relays = append(w.relays, r)
	}
	cols := int32(p.Columns)
	if cols == 0 {
		cols = 100
	}
	vs.SetFlag("client", true)
	vs.SetFlag("win", p.WinNL == "client")
	if !p.RawClient {
		w.filter = NewTrzszFilter(w.keys, w.term, w.c2s[0], w.s2c[0], TrzszOptions{TerminalColumns: cols})
	}
	vs.SetFlag("win", false)
	vs.SetFlag("client", false)
	if p.Local != nil {
		lf, n := p.Local, 0
		vs.HookFn = func(name string, args ...any) error {
			if name != lf.Hook || (lf.Side == "client") != vs.Flag("client") {
				return nil
			}
			n++
			w.localN = n
			if n != lf.K {
				return nil
			}
			if lf.Kind == "slow" {
				// a slow disk: this one call takes a second (of virtual time)
				vs.Sleep(time.Second)
				return nil
			}
			if lf.Kind == "shrink" {
				// the source file loses its tail on disk just before this read
				for _, e := range w.entries {
					if !e.Dir && len(e.Data) > 1 {
						os.Truncate(filepath.Join(w.srcRoot, filepath.FromSlash(e.Path)), int64(len(e.Data)/3))
					}
				}
				return nil
			}
			if lf.Kind == "slowerr" {
				// a disk that takes a second over the call before it reports the failure (a full network file system)
				vs.Sleep(time.Second)
			}
			return fmt.Errorf("injected %s failure", name)
		}
	}
	if p.Tunnel && w.filter != nil {
		w.filter.SetTunnelConnector(func(port int) net.Conn { return dialOrNil(port, "client") })
	}
	return w
}

// dialOrNil avoids the typed-nil trap: a refused connection must be a nil interface.
func dialOrNil(port int, tag string) net.Conn {
	if c := vs.Dial(port, tag); c != nil {
		return c
	}
	return nil
}

// mitmActProtocol rewrites the protocol member of the client's ACT line (models an older client).
func mitmActProtocol(protocol int) func([]byte) []byte {
	done := false
	return func(b []byte) []byte {
		if done || !bytes.HasPrefix(b, []byte("#ACT:")) {
			return b
		}
		done = true
		nl := bytes.IndexAny(b, "!\n")
		if nl < 0 {
			return b
		}
		raw, err := decodeString(string(b[5:nl]))
		if err != nil {
			return b
		}
		var m map[string]any
		if json.Unmarshal(raw, &m) != nil {
			return b
		}
		if protocol <= 1 {
			delete(m, "protocol")
		} else {
			m["protocol"] = protocol
		}
		j, _ := json.Marshal(m)
		return append(append([]byte("#ACT:"), []byte(encodeString(string(j)))...), b[nl:]...)
	}
}

func (w *world) baseArgs() baseArgs {
	a := baseArgs{Quiet: w.p.Quiet, Overwrite: w.p.Overwrite, Binary: w.p.Binary, Escape: w.p.EscapeAll, Directory: w.p.Directory,
		Fork: w.p.Fork, Bufsize: bufferSize{10 * 1024 * 1024}, Timeout: 20, Compress: compressType(w.p.Compress)}
	if w.p.Bufsize > 0 {
		a.Bufsize.Size = w.p.Bufsize
	}
	if w.p.Timeout != 0 {
		a.Timeout = w.p.Timeout
	}
	return a
}

func (w *world) serverVersion() string {
	if w.p.Protocol == 2 {
		return "1.1.3"
	}
	return kTrzszVersion
}

// startServer is the replica of the tail of TrzMain / TszMain (trz.go:170-220, tsz.go:166-216): it
// prints the trigger, creates the transfer on the server's streams and runs the real role function
// in its own goroutine without a recover, exactly as the product does.
func (w *world) startServer() {
	n := len(w.c2s) - 1
	srvOut := w.s2c[n]
	gen := w.srvGen + 1
	w.srvGen = gen
	// the server process's stdin: gone once that process has exited
	srvIn := &vs.GatedReader{P: w.c2s[n], Closed: func() bool { return w.srvGen != gen || w.srvExited }}
	w.srvExited = false
	uniqueID := (vs.Now().UnixMilli() % 10e10) * 100
	if w.p.WinNL == "server" {
		uniqueID += 10 // as TrzMain does when running on Windows
		vs.SetFlag("win", true)
		defer vs.SetFlag("win", false)
	}
	port := 0
	tmuxMode, tmuxPaneWidth := tmuxModeType(noTmuxMode), int32(-1)
	transfer := newTransfer(srvOut, nil, false, nil)
	w.srvTransfer = transfer
	if w.p.Tunnel && !w.p.ServerNoListen {
		// TrzMain/TszMain: listener, port := listenForTunnel(); transfer.acceptOnTunnel(listener, id, port)
		var listener net.Listener
		listener, port = listenForTunnel()
		if listener != nil {
			transfer.acceptOnTunnel(listener, fmt.Sprintf("%013d", uniqueID), port)
		}
	}
	if w.p.Dir == "up" {
		args := &trzArgs{baseArgs: w.baseArgs(), Path: w.dstRoot}
		mode := "R"
		if args.Directory {
			mode = "D"
		}
		srvOut.Write([]byte(fmt.Sprintf("\x1b7\x07::TRZSZ:TRANSFER:%s:%s:%013d:%d\r\n", mode, w.serverVersion(), uniqueID, port)))
		wrapTransferInput(transfer, srvIn, false)
		w.srvStarted = true
		vs.Go("server-role", func() {
			err := recvFiles(transfer, args, tmuxMode, tmuxPaneWidth)
			if err != nil {
				transfer.serverError(err)
			}
			transfer.cleanup()
			w.srvErr, w.srvDone, w.srvDoneAt = err, true, vs.Elapsed()
			w.srvDoneStep = vs.StepNow()
			w.srvExited = true
		})
		return
	}
	var paths []string
	for _, t := range w.tops {
		paths = append(paths, filepath.Join(w.srcRoot, filepath.FromSlash(t)))
	}
	args := &tszArgs{baseArgs: w.baseArgs(), File: paths}
	files, err := checkPathsReadable(args.File, args.Directory)
	if w.srcOverride != nil {
		files, err = w.srcOverride, nil
	}
	if err != nil {
		w.srvErr, w.srvDone = err, true
		return
	}
	if args.Overwrite {
		if err := checkDuplicateNames(files); err != nil {
			w.srvErr, w.srvDone = err, true
			return
		}
	}
	srvOut.Write([]byte(fmt.Sprintf("\x1b7\x07::TRZSZ:TRANSFER:S:%s:%013d:%d\r\n", w.serverVersion(), uniqueID, port)))
	wrapTransferInput(transfer, srvIn, false)
	w.srvStarted = true
	vs.Go("server-role", func() {
		err := sendFiles(transfer, files, args, tmuxMode, tmuxPaneWidth)
		if err != nil {
			transfer.serverError(err)
		}
		transfer.cleanup()
		w.srvErr, w.srvDone, w.srvDoneAt = err, true, vs.Elapsed()
		w.srvDoneStep = vs.StepNow()
		w.srvExited = true
	})
}

// startRawUploadClient replaces the filter by the body of TrzszFilter.uploadFiles without the dialogs,
// sending the given (possibly doctored) records through the real sendFiles. Used where the property is
// about the receiving server and the sender is only environment.
func (w *world) startRawUploadClient(files []*sourceFile) {
	t := newTransfer(w.c2s[0], nil, false, nil)
	wrapTransferInput(t, w.s2c[0], false)
	vs.Go("raw-client", func() {
		err := func() error {
			if err := t.sendAction(true, nil, false); err != nil {
				return err
			}
			if _, err := t.recvConfig(); err != nil {
				return err
			}
			names, err := t.sendFiles(files, nil)
			if err != nil {
				return err
			}
			return t.clientExit(formatSavedFiles(names, ""))
		}()
		if err != nil {
			t.clientError(err)
		}
		t.cleanup()
		w.rawErr, w.rawDone = err, true
	})
}

// prepareClient arms the client for the coming transfer (what the user would do in the dialogs).
func (w *world) prepareClient() {
	if w.filter == nil {
		return
	}
	if w.p.Dir == "down" {
		switch w.p.Kind {
		case "refuse":
			w.filter.SetDefaultDownloadPath("")
		case "badpath":
			w.filter.SetDefaultDownloadPath(filepath.Join(w.root, "no-such-dir"))
		default:
			w.filter.SetDefaultDownloadPath(w.dstRoot)
		}
		return
	}
	var paths []string
	for _, t := range w.tops {
		paths = append(paths, filepath.Join(w.srcRoot, filepath.FromSlash(t)))
	}
	res, err := w.filter.OneTimeUpload(paths)
	must(err)
	w.uploadRes = res
	// the application reads the one-time upload result once
	vs.GoDaemon("app-upload-result", func() {
		if e, ok := <-vs.R(res); ok && e != nil {
			w.uploadErr = e.Error()
		}
	})
}

func decodeLines(stream []byte, typ string) []string {
	var out []string
	for _, line := range bytes.Split(stream, []byte("\n")) {
		idx := bytes.LastIndex(line, []byte("#"+typ+":"))
		if idx < 0 {
			continue
		}
		s := strings.TrimRight(string(line[idx+len(typ)+2:]), "!\r")
		if b, err := decodeString(s); err == nil {
			out = append(out, string(b))
		} else {
			out = append(out, "<undecodable:"+s+">")
		}
	}
	return out
}

func (w *world) result(s *vs.Sched) *worldResult {
	r := &worldResult{Sched: s, SrvDone: w.srvDone, SrvDoneAt: w.srvDoneAt, CliDone: w.cliDone, CliDoneAt: w.cliDoneAt, StopAt: w.stopAt, StopHit: w.stopHit}
	for _, pr := range w.pauseLog {
		if pr.End == 0 {
			pr.End = vs.Elapsed() // the transfer ended before the pause did
			pr.C2SLenEnd = pr.C2SLen
		}
		if pr.t != nil {
			pr.BufAfter = pr.t.bufferSize.Load()
		}
		r.Pauses = append(r.Pauses, pr)
	}
	// times at which the client wrote a keep-alive line
	stampsOf := func(p *vs.Pipe) {
		for _, st := range p.Log {
			b := p.Written[st.Off : st.Off+st.Len]
			if bytes.HasPrefix(b, []byte("#DATA:=")) || bytes.HasPrefix(b, []byte("#SUCC:=")) {
				r.KeepAlives = append(r.KeepAlives, st.At)
			}
		}
	}
	stampsOf(w.c2s[0])
	for _, c := range vs.NetConns() {
		if c.Name == "client.client" {
			stampsOf(c.OutPipe())
		}
	}
	sort.Slice(r.KeepAlives, func(i, j int) bool { return r.KeepAlives[i] < r.KeepAlives[j] })
	r.StepsAtDone = w.srvDoneStep
	if w.cliDoneStep > r.StepsAtDone {
		r.StepsAtDone = w.cliDoneStep
	}
	if w.stopTransfer != nil {
		r.StopCleanTimeout = w.stopTransfer.cleanTimeout
	} else if w.p.Stop != nil && w.p.Stop.Side == "server" {
		r.StopCleanTimeout = w.srvTransfer.cleanTimeout
	}
	if w.srvErr != nil {
		r.SrvErr = w.srvErr.Error()
	}
	n := len(w.c2s) - 1
	r.C2S, r.S2C = w.c2s[n].Written, w.s2c[n].Written
	r.ClientGot = w.s2c[0].Written[w.markS2C0:]
	b, _ := os.ReadFile(w.stdout.Name())
	r.SrvStdout = string(b)
	r.Term = string(w.term.Written[w.markTerm:])
	cliStreams, srvStreams := [][]byte{w.c2s[0].Written[w.markC2S:]}, [][]byte{w.s2c[n].Written[w.markS2C:]}
	for _, c := range vs.NetConns() {
		if c.Name == "client.client" {
			cliStreams = append(cliStreams, c.Sent())
			r.TunC2S, r.TunS2C = c.Sent(), c.Received()
			r.ClientGot = append(append([]byte(nil), r.ClientGot...), c.Received()...)
			r.TunMsgsC2S, r.TunMsgsS2C = len(c.OutPipe().Log), len(c.InPipe().Log)
			r.TunLogC2S, r.TunLogS2C = c.OutPipe().Log, c.InPipe().Log
		}
		if strings.HasSuffix(c.Name, ".server") && c.Tag == w.srvConnTag() {
			srvStreams = append(srvStreams, c.Sent())
			r.SrvTunGot = c.Received()
		}
	}
	for _, st := range cliStreams {
		r.ClientSent = append(r.ClientSent, st...)
	}
	for _, st := range srvStreams {
		r.ServerSent = append(r.ServerSent, st...)
	}
	for _, st := range cliStreams {
		if l := decodeLines(st, "EXIT"); len(l) > 0 {
			r.ClientExit = l[len(l)-1]
		}
	}
	for _, t := range []string{"fail", "FAIL"} {
		for _, st := range cliStreams {
			if l := decodeLines(st, t); len(l) > 0 {
				r.ClientFail = l[len(l)-1]
			}
		}
		for _, st := range srvStreams {
			if l := decodeLines(st, t); len(l) > 0 {
				r.ServerFail = l[len(l)-1]
			}
		}
	}
	r.Dst = snapshot(w.dstRoot)
	r.DstFull = snapshotFull(w.dstRoot)
	r.Outside = outsideSnapshot(w.root)
	return r
}

// runTransfer runs one transfer through the (already built) world and reports what was observed.
func (w *world) runTransfer(extra func(w *world)) *worldResult {
	p := w.p
	var res *worldResult
	w.applyKind()
	w.prepareClient()
	if extra != nil {
		extra(w)
	}
	w.startServer()
	w.installEvents()
	if w.filter != nil {
		vs.GoDaemon("monitor", func() {
			vs.WaitUntil("monitor.start", func() bool { return w.filter.IsTransferringFiles() || w.srvDone })
			w.cliStartAt = vs.Elapsed()
			vs.WaitUntil("monitor.end", func() bool { return !w.filter.IsTransferringFiles() })
			w.cliDoneAt, w.cliDone = vs.Elapsed(), true
			w.cliDoneStep = vs.StepNow()
		})
	}
	res0Quiet := vs.WaitSettled(func() bool {
		if w.filter == nil {
			return w.srvDone && w.rawDone
		}
		return w.srvDone && w.srvStarted && !w.filter.IsTransferringFiles()
	}, 3000)
	probe := ""
	if p.Probe && w.filter != nil {
		probe = w.probe()
	}
	vs.Peek(func() {
		res = w.result(nil)
		res.Transferring = w.filter != nil && w.filter.IsTransferringFiles()
		res.ProbeOut = probe
	})
	res.End = vs.Elapsed()
	res.Alive = vs.AliveNow()
	res.Quiet = res0Quiet
	res.Params = p
	res.MarkC2S, res.MarkS2C0 = w.markC2S, w.markS2C0
	return res
}

// applyKind arranges the client side for the kind of transfer asked for.
func (w *world) applyKind() {
	switch w.p.Kind {
	case "refuse": // the user cancels the save dialog (fake zenity exits 1): the client answers confirm:false
		w.p.Dir = "down"
	case "badpath": // the chosen download directory does not exist: fails on the client before the handshake
		w.p.Dir = "down"
	}
}

// nextTransfer prepares the world for a follow-up transfer through the same filter, wires and relays.
func (w *world) nextTransfer(st wParams, k int) {
	base := w.p
	base.Dir, base.Tree, base.Directory, base.Overwrite, base.Kind = st.Dir, st.Tree, st.Directory, st.Overwrite, st.Kind
	base.Local, base.Stop, base.Pauses, base.DstPre, base.Then = st.Local, st.Stop, nil, "", nil
	base.ServerNoListen = st.ServerNoListen
	base.Stops = st.Stops
	if base.Stop != nil {
		cp := *base.Stop
		cp.Step += vs.StepNow() // relative to the beginning of this transfer
		base.Stop = &cp
	}
	w.p = base
	if !st.DstSame {
		w.dstRoot = filepath.Join(w.root, fmt.Sprintf("dst%d", k))
	}
	must(os.MkdirAll(w.dstRoot, 0o755))
	w.srcRoot, w.entries, w.tops = sharedTree(base.Tree)
	w.pre = snapshotFull(w.dstRoot)
	w.srvTransfer, w.srvStarted, w.srvDone, w.srvErr, w.srvDoneAt = nil, false, false, nil, 0
	w.cliDone, w.cliDoneAt, w.cliStartAt, w.srvDoneStep, w.cliDoneStep = false, 0, 0, 0, 0
	w.stopHit, w.stopAt, w.stopTransfer, w.pauseLog = false, 0, nil, nil
	w.markC2S, w.markS2C, w.markTerm = len(w.c2s[0].Written), len(w.s2c[len(w.s2c)-1].Written), len(w.term.Written)
	w.markS2C0 = len(w.s2c[0].Written)
	worldStdoutFile.Truncate(0)
	worldStdoutFile.Seek(0, 0)
	vs.HookFn = nil
	if lf := base.Local; lf != nil {
		n := 0
		vs.HookFn = func(name string, args ...any) error {
			if name != lf.Hook || (lf.Side == "client") != vs.Flag("client") {
				return nil
			}
			n++
			if n != lf.K {
				return nil
			}
			return fmt.Errorf("injected %s failure", name)
		}
	}
}

// installEvents registers the user events of this execution with the scheduler.
func (w *world) installEvents() {
	type ev struct {
		step int
		f    func()
	}
	var evs []ev
	var stops []*wStop
	if w.p.Stop != nil {
		stops = append(stops, w.p.Stop)
	}
	for i := range w.p.Stops {
		stops = append(stops, &w.p.Stops[i])
	}
	for _, st := range stops {
		st := st
		pressed := new(bool)
		if st.Via == "keys" && st.Side != "server" {
			// the user: answers the menu some time after pressing Ctrl-C, one key per read of the input pump
			vs.GoDaemon("user-choice", func() {
				vs.WaitUntil("user.ctrlc", func() bool { return *pressed })
				ms := st.ChoiceMs
				if ms == 0 {
					ms = 300
				}
				vs.Sleep(time.Duration(ms) * time.Millisecond)
				w.stopAt = vs.Elapsed()
				vs.Peek(func() {
					if t := w.filter.transfer.Load(); t != nil && !st.Continue {
						w.stopHit = true
						w.stopTransfer = t
					}
				})
				keys := []string{"\r"}
				if st.Continue {
					keys = []string{"j", "j", "\r"}
				} else if st.Delete {
					keys = []string{"j", "\r"}
				}
				for _, k := range keys {
					w.keys.Write([]byte(k))
					vs.Sleep(20 * time.Millisecond)
				}
				w.pendingChoices--
			})
		}
		fire := func() {
			if st.Side == "wire" {
				// the peer gives up on its own: a failure line arrives on the wire next to the client (between two lines of the server)
				w.s2c[0].Write([]byte("#fail:" + encodeString("peer gave up") + "\n"))
				return
			}
			if st.Side == "server" {
				w.stopAt = vs.Elapsed()
				w.stopHit = !w.srvDone
				w.srvTransfer.stopTransferringFiles(false) // handleServerSignal
				return
			}
			if st.Via == "keys" {
				if w.filter.transfer.Load() == nil {
					return // no transfer on the screen: nothing the user would interrupt
				}
				w.keys.Write([]byte{0x03})
				w.pendingChoices++
				*pressed = true
				return
			}
			w.stopAt = vs.Elapsed()
			if t := w.filter.transfer.Load(); t != nil {
				w.stopHit = true
				w.stopTransfer = t
			}
			w.filter.StopTransferringFiles(st.Delete)
		}
		if st.AtMs > 0 {
			vs.AddTimer(time.Duration(st.AtMs)*time.Millisecond, func() { vs.Peek(fire) }) // (atomically, as an injected event)
		} else {
			evs = append(evs, ev{st.Step, fire})
		}
	}
	for i := range w.p.Pauses {
		pa := w.p.Pauses[i]
		var begin func(again bool)
		begin = func(again bool) {
			t := w.filter.transfer.Load()
			if t == nil {
				return
			}
			w.pauseHits++
			w.pauseLog = append(w.pauseLog, pauseRec{Begin: vs.Elapsed(), C2SLen: w.clientSentLen(), t: t})
			idx := len(w.pauseLog) - 1
			t.pauseTransferringFiles()
			forMs := pa.ForMs
			if !again && pa.AgainForMs > 0 {
				forMs = pa.AgainForMs
			}
			vs.AddTimer(time.Duration(forMs)*time.Millisecond, func() {
				// the prompt handler: continue (only if the transfer is still the current one)
				vs.Peek(func() {
					w.pauseLog[idx].End = vs.Elapsed()
					w.pauseLog[idx].C2SLenEnd = w.clientSentLen()
					if cur := w.filter.transfer.Load(); cur == t {
						w.pauseLog[idx].BufBefore = t.bufferSize.Load()
						t.resumeTransferringFiles()
						if again && pa.AgainAfterMs > 0 {
							vs.AddTimer(time.Duration(pa.AgainAfterMs)*time.Millisecond, func() { vs.Peek(func() { begin(false) }) })
						}
					}
				})
			})
		}
		if pa.AtMs > 0 {
			vs.AddTimer(time.Duration(pa.AtMs)*time.Millisecond, func() { vs.Peek(func() { begin(true) }) })
		} else {
			evs = append(evs, ev{pa.Step, func() { begin(true) }})
		}
	}
	sort.SliceStable(evs, func(i, j int) bool { return evs[i].step < evs[j].step })
	for _, e := range evs {
		vs.InjectAt(e.step, e.f)
	}
}

// clientSentLen is the number of bytes the client has written towards the server so far.
func (w *world) clientSentLen() int {
	n := len(w.c2s[0].Written)
	for _, c := range vs.NetConns() {
		if c.Name == "client.client" {
			n += len(c.Sent())
		}
	}
	return n
}

type pauseRec struct {
	Begin, End          time.Duration
	C2SLen, C2SLenEnd   int
	BufBefore, BufAfter int64
	t                   *trzszTransfer
}

// probe checks transparency after a transfer: text printed by the remote shell must reach the
// terminal and typed input must reach the remote side, each exactly once.
func (w *world) probe() string {
	n := len(w.c2s) - 1
	w.probeN++
	if w.pendingChoices > 0 {
		// the stop/continue menu is still on the screen: the user answers it first
		vs.WaitUntil("probe.menu", func() bool { return w.pendingChoices == 0 })
		vs.WaitSettled(func() bool { return false }, 0)
	}
	// near-misses of everything the filter looks for ride along with the probe
	out := fmt.Sprintf("probe-out-%d ::TRZSZ:TRANSFER:X:1.1.8:77 **\x18B0 \x1b]52;x; <ENABLE_TRZSZ_TRACE_LOG $ \r\n", w.probeN)
	in := fmt.Sprintf("probe-in-%d /no/such ", w.probeN)
	w.s2c[n].Write([]byte(out))
	w.keys.Write([]byte(in))
	vs.WaitSettled(func() bool {
		return bytes.Contains(w.term.Written, []byte(out)) && bytes.Contains(w.c2s[n].Written, []byte(in))
	}, 500)
	if c := bytes.Count(w.term.Written, []byte(out)); c != 1 {
		return fmt.Sprintf("remote output reached the terminal %d times", c)
	}
	if c := bytes.Count(w.c2s[n].Written, []byte(in)); c != 1 {
		return fmt.Sprintf("typed input reached the remote side %d times", c)
	}
	return "ok"
}

// srvConnTag is the tag of the tunnel connection that ends at the server.
func (w *world) srvConnTag() string {
	if w.p.Relays > 0 {
		return fmt.Sprintf("relay%d", w.p.Relays-1)
	}
	return "client"
}

func (w *world) cleanup() {
	vs.OnDial = nil
	vs.HookFn = nil
	os.Stdout = realStdout
	if w.p.Fork {
		os.Stdin.Close()
		os.Stderr.Close()
	}
	os.Stdin, os.Stderr = realStdin, realStderr
	os.RemoveAll(w.root)
}

// expectedDst computes the destination tree a successful transfer of the source tree must produce
// into an empty destination: top-level paths land under their base names.
func (w *world) expectedDst(rename map[string]string) map[string]string {
	want := map[string]string{}
	src := snapshot(w.srcRoot)
	for _, top := range w.tops {
		base := top[strings.LastIndex(top, "/")+1:]
		name := base
		if rename != nil {
			if v, ok := rename[top]; ok {
				name = v
			}
		}
		for k, v := range src {
			if k == top {
				want[name] = v
			} else if strings.HasPrefix(k, top+"/") {
				want[name+k[len(top):]] = v
			}
		}
	}
	return want
}

// runWorld executes one transfer under the scheduler and returns what was observed.
func runWorld(p wParams, cfg vs.Config, prefix, prefixN []int, extra func(w *world)) (*world, *worldResult) {
	return runWorldWith(p, cfg, prefix, prefixN, extra)
}

func runWorldWith(p wParams, cfg vs.Config, prefix, prefixN []int, extra func(w *world)) (*world, *worldResult) {
	var w *world
	var res *worldResult
	if cfg.MaxSteps == 0 {
		cfg.MaxSteps = 3_000_000
	}
	if cfg.MaxVirtual == 0 {
		cfg.MaxVirtual = 3 * time.Hour
	}
	if p.FdLimit > 0 {
		var old syscall.Rlimit
		syscall.Getrlimit(syscall.RLIMIT_NOFILE, &old)
		syscall.Setrlimit(syscall.RLIMIT_NOFILE, &syscall.Rlimit{Cur: uint64(p.FdLimit), Max: old.Max})
		defer syscall.Setrlimit(syscall.RLIMIT_NOFILE, &old)
	}
	if p.HashStep > 0 {
		saved := kPrefixHashStep
		kPrefixHashStep = p.HashStep
		defer func() { kPrefixHashStep = saved }()
	}
	s := vs.Run(cfg, prefix, prefixN, func() {
		w = buildWorld(p)
		res = w.runTransfer(extra)
		for i := range p.Then {
			w.nextTransfer(p.Then[i], i+1)
			res.Next = append(res.Next, w.runTransfer(nil))
		}
	})
	if w == nil || (res == nil && w.keys == nil) {
		panic("harness: building the world failed: " + s.CrashString() + " " + s.Diverged)
	}
	if res == nil {
		// the execution ended before quiescence (deadlock cannot happen with WaitQuiescent; crash or horizon can)
		vs.Peek(func() { res = w.result(nil) })
	}
	res.Sched = s
	w.cleanup()
	return w, res
}
