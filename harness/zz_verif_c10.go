package trzsz

// C10 — stopping ends a transfer promptly on both sides and removes only what it made
// (DESIGN.md §3 C10). The stop (client: StopTransferringFiles keep/delete, server: the SIGINT path)
// is pinned to every scheduling point of the default schedule of a transfer; thorough adds one
// schedule deviation after the stop.

import (
	"bytes"
	"encoding/json"
	"fmt"
	"sort"
	"strings"
	"time"

	vs "github.com/trzsz/trzsz-go/zzverif/vsched"
)

type c10Params struct {
	W       wParams `json:"w"`
	Side    string  `json:"side"`
	Delete  bool    `json:"delete"`
	Shard   int     `json:"shard"`
	NShards int     `json:"nshards"`
	Sched   int     `json:"sched,omitempty"`
	// Keys: the client-side stop is typed — Ctrl-C (the product pauses the transfer and opens its menu), the
	// answer 300 ms later — instead of calling StopTransferringFiles
	Keys bool `json:"keys,omitempty"`
	// AfterContinue: over a link with latency the user presses Ctrl-C, leaves the menu open for 3 s, chooses
	// "continue", and stops for good a little later (a list of moments): the second stop must be as prompt as any
	AfterContinue bool `json:"after_continue,omitempty"`
	// Twice: two transfers of one client session, both ended with stop-and-delete: a download (the client removes what it
	// created), then an upload (the client created nothing; the server must remove its partial file)
	Twice bool `json:"twice,omitempty"`
}

// completedFiles counts the MD5 acknowledgements the receiver sent: 16-byte digests in #SUCC: lines.
func completedFiles(stream []byte) int {
	n := 0
	for _, l := range decodeLinesRaw(stream, "SUCC") {
		if len(l) == 16 {
			n++
		}
	}
	return n
}

func decodeLinesRaw(stream []byte, typ string) [][]byte {
	var out [][]byte
	for _, line := range bytes.Split(stream, []byte("\n")) {
		idx := bytes.LastIndex(line, []byte("#"+typ+":"))
		if idx < 0 {
			continue
		}
		s := strings.TrimRight(string(line[idx+len(typ)+2:]), "!\r")
		if b, err := decodeString(s); err == nil {
			out = append(out, b)
		}
	}
	return out
}

func c10Oracle(w *world, r *worldResult) (violation, outcome string) {
	st := w.p.Stop
	said := serverSaid(r.SrvStdout)
	srvOK := r.SrvDone && r.SrvErr == "" && strings.HasPrefix(said, "Saved ")
	cliOK := strings.HasPrefix(r.ClientExit, "Saved ")
	outcome = "stopped"
	if srvOK && cliOK {
		outcome = "completed"
	}
	switch {
	case len(r.Sched.Crash) > 0:
		return "panic in a product goroutine: " + r.Sched.CrashString(), "crash"
	case r.Sched.Horizon:
		return fmt.Sprintf("horizon reached (virtual %v): the stopped transfer does not end", r.End), "horizon"
	case !r.SrvDone:
		return "the server never returned after the stop: alive " + strings.Join(leakedWorkers(r.Alive), " "), "server-hang"
	case r.Transferring:
		return "the client never left the transfer after the stop: alive " + strings.Join(leakedWorkers(r.Alive), " "), "client-hang"
	}
	// promptness: both sides return within cleanTimeout of the stopping side + 2 s (the peer's two drains)
	if r.StopHit && w.p.LatencyMs > 0 && r.Sched.Stall == 0 {
		// the quiet-wait the stopping side grants its peer is derived from how long recent chunks took; over this link
		// a chunk takes about one round trip, whatever the user did in a menu before
		lat := time.Duration(w.p.LatencyMs) * time.Millisecond
		if ref := 2*(2*lat) + 400*time.Millisecond; r.StopCleanTimeout > ref && r.StopCleanTimeout > 500*time.Millisecond {
			return fmt.Sprintf("the stopping side waits %v for its peer to fall quiet although a chunk takes about %v over this link (time spent in the stop/continue menu was counted as chunk time)", r.StopCleanTimeout, 2*lat), outcome
		}
	}
	if r.StopHit {
		bound := r.StopCleanTimeout + 2*time.Second + r.Sched.Stall
		if d := r.SrvDoneAt - r.StopAt; d > bound {
			return fmt.Sprintf("the server returned %v after the stop, bound %v", d, bound), outcome
		}
		if d := r.CliDoneAt - r.StopAt; r.CliDone && d > bound {
			return fmt.Sprintf("the client returned %v after the stop, bound %v", d, bound), outcome
		}
	}
	// what each side reports
	if r.StopHit && outcome != "completed" {
		texts := said + " | " + r.SrvErr + " | " + r.ClientFail + " | " + r.ServerFail
		if !strings.Contains(texts, "Stopped") {
			return fmt.Sprintf("the transfer was stopped but nobody says so: server said %q err %q, client fail %q, server fail %q", clipStr(said, 100), clipStr(r.SrvErr, 100), clipStr(r.ClientFail, 100), clipStr(r.ServerFail, 100)), outcome
		}
		if srvOK || cliOK {
			// one side says saved, the other stopped: only if every file was in fact complete and verified
			if v, _ := c02Oracle(w, r); v != "" {
				return "success reported for an incomplete file after a stop: " + v, outcome
			}
		}
	}
	if outcome == "completed" {
		if v := c01OracleFiles(w, r); v != "" {
			return v, outcome
		}
	}
	// pre-existing entries outside the transferred names are never touched
	want := w.expectedFresh()
	var preKeys []string
	for k := range w.pre {
		preKeys = append(preKeys, k)
	}
	sort.Strings(preKeys)
	for _, k := range preKeys {
		if _, transferred := want[k]; transferred && w.p.Overwrite {
			continue
		}
		if r.DstFull[k] != w.pre[k] {
			return fmt.Sprintf("pre-existing %s changed or disappeared: %s -> %s", k, w.pre[k], r.DstFull[k]), outcome
		}
	}
	deleted := st.Delete && st.Side == "client" && r.StopHit && outcome != "completed" &&
		(strings.Contains(said+r.ClientFail+r.ServerFail+r.SrvErr, "Stopped and deleted") ||
			// a receiving client that was stopped inside a read reports the plain error with the list of what it removed
			strings.Contains(said+r.ClientFail+r.ServerFail+r.SrvErr, "Stopped:\r\n- "))
	if deleted {
		outcome = "stopped-and-deleted"
		// everything this transfer created (or had begun to replace) is gone
		var left []string
		for k := range r.Dst {
			if _, pre := w.pre[k]; !pre {
				left = append(left, k)
			}
		}
		sort.Strings(left)
		if len(left) > 0 {
			return fmt.Sprintf("stop-and-delete left %v behind (created by this transfer)", left), outcome
		}
	} else if outcome != "completed" {
		// plain stop: files both sides completed are kept intact
		recvStream := r.ServerSent
		if w.p.Dir == "down" {
			recvStream = r.ClientSent
		}
		done := completedFiles(recvStream)
		// the files in the order the sender announced them (not the order of the tree recipe)
		sendStream := r.ClientSent
		if w.p.Dir == "down" {
			sendStream = r.ServerSent
		}
		var order []string
		for _, nm := range decodeLinesRaw(sendStream, "NAME") {
			var sf struct {
				RelPath []string `json:"path_name"`
				IsDir   bool     `json:"is_dir"`
			}
			if json.Unmarshal(nm, &sf) == nil && len(sf.RelPath) > 0 {
				if !sf.IsDir {
					order = append(order, strings.Join(sf.RelPath, "/"))
				}
			} else {
				order = append(order, string(nm))
			}
		}
		if !w.archiveMode() {
			for i, k := range order {
				if i >= done {
					break
				}
				wantK, known := want[k]
				if !known {
					continue // stored under a fresh name: not mapped here
				}
				if got, ok := r.Dst[k]; !ok || got != wantK {
					return fmt.Sprintf("file %s was completed and verified before the stop but is %q at the destination (want %s)", k, got, wantK), outcome
				}
			}
		}
	}
	// (workers left behind by a failed transfer are C11's subject, not C10's)
	return "", outcome
}

// archiveMode: a directory travels as one archive stream (protocol 4, no -y, directory mode).
func (w *world) archiveMode() bool {
	return w.p.Directory && !w.p.Overwrite && (w.p.Protocol == 0 || w.p.Protocol >= 4)
}

// c01OracleFiles: the safety half of C01 (destination equals source for a completed transfer).
func c01OracleFiles(w *world, r *worldResult) string {
	want := w.expectedFresh()
	var keys []string
	for k := range want {
		keys = append(keys, k)
	}
	sort.Strings(keys)
	for _, k := range keys {
		if r.Dst[k] != want[k] {
			return fmt.Sprintf("both sides report success but %s is %q, the source has %s", k, r.Dst[k], want[k])
		}
	}
	return ""
}

// expectedFresh is expectedDst with the fresh-name rule applied to the prior destination state
// (without -y a colliding top-level name goes to name.0, name.1, ...).
func (w *world) expectedFresh() map[string]string {
	if w.p.Overwrite {
		return w.expectedDst(nil)
	}
	exists := map[string]bool{}
	for k := range w.pre {
		if !strings.Contains(k, "/") {
			exists[k] = true
		}
	}
	ren := map[string]string{}
	for _, top := range w.tops {
		base := top[strings.LastIndex(top, "/")+1:]
		f := c07Fresh(func(n string) bool { return exists[n] }, base)
		exists[f] = true
		ren[top] = f
	}
	return w.expectedDst(ren)
}

func c10Run(j vs.Job) *vs.JobResult {
	var p c10Params
	j.Decode(&p)
	r := &vs.JobResult{Outcomes: map[string]int64{}}
	if j.Replay != nil && j.Replay.Detail != nil {
		b, _ := json.Marshal(j.Replay.Detail)
		var wp wParams
		json.Unmarshal(b, &wp)
		w, res := runWorld(wp, vs.Config{Trace: true, ClockChoice: p.Sched > 0}, j.Replay.Choices, j.Replay.Ns, nil)
		v, o := c10Oracle(w, res)
		r.Notes = append(r.Notes, res.Sched.Trace...)
		r.Notes = append(r.Notes, fmt.Sprintf("outcome=%s stopAt=%v hit=%v srvDone=%v@%v cliDone=%v@%v clean=%v srvErr=%q said=%q exit=%q cfail=%q sfail=%q pre=%v dst=%v alive=%v", o, res.StopAt, res.StopHit, res.SrvDone, res.SrvDoneAt, res.CliDone, res.CliDoneAt, res.StopCleanTimeout,
			clipStr(res.SrvErr, 200), serverSaid(res.SrvStdout), res.ClientExit, clipStr(res.ClientFail, 200), clipStr(res.ServerFail, 200), w.pre, res.Dst, res.Alive))
		if v != "" {
			r.Violate("c10:"+wp.String(), v, wp)
		}
		return r
	}
	if p.Twice {
		for _, s1 := range []int{60, 100, 140, 180, 220, 260, 300} {
			for _, s2 := range []int{80, 140, 200} {
				wp := p.W
				wp.Stop = &wStop{Side: "client", Delete: true, Step: s1}
				wp.Then = []wParams{{Dir: "up", Tree: "one:R:200000", Stop: &wStop{Side: "client", Delete: true, Step: s2}}}
				_, res := runWorld(wp, vs.Config{Trace: j.Replay != nil}, nil, nil, nil)
				r.Execs++
				v := ""
				switch {
				case len(res.Sched.Crash) > 0:
					v = "panic in a product goroutine: " + res.Sched.CrashString()
				case res.Sched.Horizon:
					v = "horizon reached: a stopped transfer does not end"
				case len(res.Next) != 1:
					v = "the second transfer of the session never ran"
				default:
					r2 := res.Next[0]
					firstDeleted := res.StopHit && strings.Contains(res.ClientFail, "\r\n- ")
					if firstDeleted && r2.StopHit && !strings.HasPrefix(r2.ClientExit, "Saved ") {
						r.Nontrivial++
						var left []string
						for k := range r2.Dst {
							left = append(left, k)
						}
						sort.Strings(left)
						switch {
						case strings.Contains(r2.ClientFail, "\r\n- "):
							v = fmt.Sprintf("the second transfer of the session (an upload, stopped with delete) ends with the client's message %q: a sender creates no files, the names are left over from the earlier transfer", clipStr(r2.ClientFail, 120))
						case !strings.Contains(r2.ClientFail, "Stopped and deleted"):
							v = fmt.Sprintf("the second stop-and-delete of the session is announced to the server as %q", clipStr(r2.ClientFail, 120))
						case len(left) > 0:
							v = fmt.Sprintf("the second stop-and-delete of the session left %v on the server", left)
						}
					}
					r.Outcomes[fmt.Sprintf("first-deleted=%v second-stopped=%v", firstDeleted, r2.StopHit)]++
				}
				if v != "" {
					r.Violate("c10:twice:"+firstWords(v, 9), wp.String()+": "+v, wp)
					return r
				}
			}
		}
		return r
	}
	if p.AfterContinue {
		for _, first := range []int{1500, 2500, 3500} {
			for _, later := range []int{200, 500, 900, 1500, 2500} {
				wp := p.W
				wp.Stop = &wStop{Side: "client", Via: "keys", AtMs: first, ChoiceMs: 3000, Continue: true}
				wp.Stops = []wStop{{Side: "client", Delete: p.Delete, AtMs: first + 3000 + 60 + later}}
				w, res := runWorld(wp, vs.Config{Trace: j.Replay != nil}, nil, nil, nil)
				v, o := c10Oracle(w, res)
				r.Execs++
				r.Nontrivial++
				r.Outcomes[o]++
				if res.StopHit {
					r.Max("clean_timeout_after_continue_ms_max", float64(res.StopCleanTimeout.Milliseconds()))
				}
				if v != "" {
					r.Violate("c10:after-continue:"+firstWords(v, 9), wp.String()+": "+v, wp)
					return r
				}
			}
		}
		return r
	}
	w0, res0 := runWorld(p.W, vs.Config{}, nil, nil, nil)
	if v := c01Oracle(w0, res0, true); v != "" && p.W.DstPre == "" {
		r.ToolErr = "the reference run without a stop is not clean: " + v
		return r
	}
	// steps up to the moment both sides were done in the reference run
	nSteps := res0.StepsAtDone
	r.Max("stop_points", float64(nSteps))
	seen := map[string]bool{}
	for step := 1; step <= nSteps; step++ {
		if step%p.NShards != p.Shard {
			continue
		}
		if j.Deadline > 0 && time.Now().Unix() > j.Deadline {
			r.Capped = "deadline"
			break
		}
		wp := p.W
		wp.Stop = &wStop{Side: p.Side, Delete: p.Delete, Step: step}
		if p.Keys {
			wp.Stop.Via = "keys"
		}
		exec := func(prefix, prefixN []int, trace bool) *vs.ExecResult {
			w, res := runWorld(wp, vs.Config{Trace: trace, ClockChoice: p.Sched > 0}, prefix, prefixN, nil)
			v, o := c10Oracle(w, res)
			if res.StopHit {
				r.Max("server_return_after_stop_ms_max", float64((res.SrvDoneAt - res.StopAt).Milliseconds()))
				r.Max("client_return_after_stop_ms_max", float64((res.CliDoneAt - res.StopAt).Milliseconds()))
			}
			x := &vs.ExecResult{Sched: res.Sched, Outcome: o, Violation: v, Detail: wp}
			if v != "" {
				x.Signature = "c10:" + p.Side + ":" + firstWords(v, 9)
				if l := leakedWorkers(res.Alive); len(l) > 0 && strings.HasPrefix(v, "workers of the stopped") {
					x.Signature = "c10:leak:" + leakSignature(l)
				}
			}
			return x
		}
		st := vs.NewStats()
		e := &vs.Explorer{Exec: exec, Budget: vs.Budget{Total: p.Sched, OnlyAfterStep: step}, NShards: 1, St: st, MaxViol: 1, SigSeen: seen,
			Known: func(sig string) bool { return vs.IsKnown("C10", sig) }}
		if j.Deadline > 0 {
			e.Deadline = time.Unix(j.Deadline, 0)
		}
		e.Explore()
		r.AddStats(st)
		unknown := 0
		for _, v := range r.Violations {
			if !vs.IsKnown("C10", v.Signature) {
				unknown++
			}
		}
		if unknown >= 5 {
			break
		}
	}
	r.Nontrivial = r.Execs
	for i := range r.Violations {
		r.Violations[i].Desc = fmt.Sprintf("%v: %s", r.Violations[i].Detail, r.Violations[i].Desc)
	}
	return r
}

func init() {
	vs.Register(&vs.Check{
		ID:    "C10",
		Level: "model_checking",
		Rule: "the stop (client keep / client delete / server SIGINT) is delivered atomically just before every scheduler step of the default schedule of a transfer (every moment between two synchronisation or I/O operations of any goroutine on either side), " +
			"for every scenario = direction x tree (3-chunk file, files, directory as entries, directory as archive) x destination (empty / pre-populated incl. a file -y is replacing) x protocol; an upload over a 300 ms link with Ctrl-C, 3 s in the menu, continue, and a stop 0.2..2.5 s later (the quiet-wait must not grow with the time spent in the menu); one client session with a download and then an upload both ended by stop-and-delete (7 x 3 stop moments); thorough: x every single schedule deviation after the stop",
		Assumptions: []string{"stop on the client = the exported StopTransferringFiles, and, in the 'keys' jobs, a typed Ctrl-C answered 300 ms later through the product's own menu handler (the menu library itself is a model: rule R14); stop on the server = stopTransferringFiles(false) (the signal handler's body)",
			"the bound asserted is cleanTimeout of the stopping side (read from its transfer) + 2 s; maxima observed are reported", "completed files = files whose MD5 the receiver acknowledged on the wire before the end"},
		TraceNote:   "explored directly on the implementation; the number counts executions replayed from recorded choice lists (determinism guard and 5x violation replays)",
		QuickBudget: 110, ThoroughBudget: 1500, DiedIsViolation: true,
		Jobs: func(tier string) []vs.Job {
			type sc struct {
				w      wParams
				side   string
				delete bool
			}
			var scs []sc
			for _, dir := range []string{"up", "down"} {
				for _, kind := range []struct {
					side string
					del  bool
				}{{"client", false}, {"client", true}, {"server", false}} {
					scs = append(scs, sc{wParams{Dir: dir, Tree: "one:R:21000", Timeout: 5}, kind.side, kind.del})
					scs = append(scs, sc{wParams{Dir: dir, Tree: "dir", Directory: true, Timeout: 5, DstPre: "c07:f--"}, kind.side, kind.del})
					// -y onto an existing file: the stop can land inside the prefix-hash exchange (3 blocks of 64 bytes agree, the 4th differs)
					scs = append(scs, sc{wParams{Dir: dir, Tree: "one:E:300", Overwrite: true, DstPre: "c08:same@200", HashStep: 64, Timeout: 5}, kind.side, kind.del})
					if kind.del {
						// what is removed is decided name by name: names that are prefixes of one another, and the same
						// base name twice (stored as name and name.0)
						scs = append(scs, sc{wParams{Dir: dir, Tree: "prefixnames", Timeout: 5}, kind.side, kind.del})
						scs = append(scs, sc{wParams{Dir: dir, Tree: "samebase", Timeout: 5}, kind.side, kind.del})
						// -y into a directory that already exists and holds other files: merged into, never "created"
						scs = append(scs, sc{wParams{Dir: dir, Tree: "dir", Directory: true, Overwrite: true, DstPre: "c07:n--", Timeout: 5}, kind.side, kind.del})
					}
					if tier == "thorough" {
						scs = append(scs, sc{wParams{Dir: dir, Tree: "small3", Protocol: 2, Timeout: 5}, kind.side, kind.del})
						scs = append(scs, sc{wParams{Dir: dir, Tree: "dir", Directory: true, Overwrite: true, Timeout: 5}, kind.side, kind.del})
						scs = append(scs, sc{wParams{Dir: dir, Tree: "one:E:300", Overwrite: true, Protocol: 3, DstPre: "c08:same@70", Timeout: 5}, kind.side, kind.del})
						scs = append(scs, sc{wParams{Dir: dir, Tree: "small3", Overwrite: true, DstPre: "c08:longer:9@5", Timeout: 5}, kind.side, kind.del})
					}
				}
			}
			var jobs []vs.Job
			for _, s := range scs {
				n := 4
				for k := 0; k < n; k++ {
					jobs = append(jobs, vs.MkJob(fmt.Sprintf("%s side=%s delete=%v %d/%d", s.w.String(), s.side, s.delete, k, n), c10Params{W: s.w, Side: s.side, Delete: s.delete, Shard: k, NShards: n}))
				}
				// the same stop as the user makes it: Ctrl-C on the keyboard, the transfer paused while the menu is open, then the answer
				if s.side == "client" && (tier == "thorough" || s.w.DstPre == "" || s.w.HashStep > 0) {
					for k := 0; k < n; k++ {
						jobs = append(jobs, vs.MkJob(fmt.Sprintf("keys %s side=%s delete=%v %d/%d", s.w.String(), s.side, s.delete, k, n), c10Params{W: s.w, Side: s.side, Delete: s.delete, Shard: k, NShards: n, Keys: true}))
					}
				}
			}
			for _, del := range []bool{false, true} {
				jobs = append(jobs, vs.MkJob(fmt.Sprintf("stop after continue delete=%v", del), c10Params{W: wParams{Dir: "up", Tree: "one:R:200000", Bufsize: 10240, LatencyMs: 300, Timeout: 5}, Side: "client", Delete: del, AfterContinue: true, NShards: 1}))
			}
			jobs = append(jobs, vs.MkJob("stop-and-delete twice in one session", c10Params{W: wParams{Dir: "down", Tree: "small3", Bufsize: 10240, Timeout: 5}, Side: "client", Delete: true, Twice: true, NShards: 1}))
			if tier == "thorough" {
				for _, s := range scs[:7] {
					n := 16
					for k := 0; k < n; k++ {
						jobs = append(jobs, vs.MkJob(fmt.Sprintf("sched1 %s side=%s delete=%v %d/%d", s.w.String(), s.side, s.delete, k, n), c10Params{W: s.w, Side: s.side, Delete: s.delete, Shard: k, NShards: n, Sched: 1}))
					}
				}
			}
			return jobs
		},
		Run: c10Run,
	})
}
