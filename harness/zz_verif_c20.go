package trzsz

// C20 — the progress line always fits the terminal and never misreports (DESIGN.md §3 C20).
// Exhaustive small-scope enumeration on the real textProgressBar through its progressCallback
// methods, with the clock (timeNowFunc) under the driver's control.

import (
	"fmt"
	"regexp"
	"strconv"
	"strings"
	"time"

	"github.com/mattn/go-runewidth"
	vs "github.com/trzsz/trzsz-go/zzverif/vsched"
)

var csiRe = regexp.MustCompile(`\x1b\[[0-9;?]*[A-Za-z]`)
var pctRe = regexp.MustCompile(`(-?\d+)%`)
var tmuxOctRe = regexp.MustCompile(`\\([0-7]{3})`)

// progressLines splits what a progress bar wrote into the lines it drew.
func progressLines(out string, tmuxPrefix string) []string {
	if tmuxPrefix != "" {
		// undo encodeTmuxOutput: prefix + \ooo escapes + CRLF per write
		var sb strings.Builder
		for _, l := range strings.Split(out, "\r\n") {
			l = strings.TrimPrefix(l, tmuxPrefix)
			sb.WriteString(tmuxOctRe.ReplaceAllStringFunc(l, func(m string) string {
				v, _ := strconv.ParseUint(m[1:], 8, 8)
				return string([]byte{byte(v)})
			}))
		}
		out = sb.String()
	}
	// a redraw starts with CR or with a cursor-left sequence
	out = regexp.MustCompile(`\x1b\[\d+D`).ReplaceAllString(out, "\r")
	var lines []string
	for _, l := range strings.Split(out, "\r") {
		l = csiRe.ReplaceAllString(l, "")
		l = strings.Trim(l, "\n")
		if l != "" {
			lines = append(lines, l)
		}
	}
	return lines
}

// progressLinesOracle checks everything a progress bar wrote to a terminal of the given width.
func progressLinesOracle(term string, columns int) string {
	if columns <= 0 {
		return ""
	}
	// only the part of the terminal output that is progress output: lines containing a percentage and a bar or ETA
	for _, l := range progressLines(term, "") {
		if !strings.Contains(l, "%") || !(strings.Contains(l, "ETA") || strings.Contains(l, "[")) {
			continue
		}
		if m := pctRe.FindAllStringSubmatch(l, -1); len(m) > 0 {
			v, _ := strconv.Atoi(m[len(m)-1][1])
			if v < 0 || v > 100 {
				return fmt.Sprintf("percentage %d%% in %q", v, clipStr(l, 120))
			}
		}
	}
	return ""
}

type c20Params struct {
	WidthFrom int `json:"from"`
	WidthTo   int `json:"to"`
	// World: the display inside a real client: the terminal is made narrower in the middle of one download and
	// a second download follows in the same session; every progress line written after the resize must fit
	World bool `json:"world,omitempty"`
}

type c20Name struct {
	family string
	name   string
}

func c20Names(tier string) []c20Name {
	widths := []int{0, 1, 19, 20, 21, 29, 30, 31, 39, 40, 41, 49, 50, 51, 70}
	if tier != "thorough" {
		widths = []int{0, 1, 20, 21, 30, 31, 40, 41, 50, 51, 70}
	}
	var out []c20Name
	for _, w := range widths {
		out = append(out, c20Name{"ascii", strings.Repeat("a", w)})
		out = append(out, c20Name{"cjk", strings.Repeat("数", w/2) + strings.Repeat("x", w%2)})
		out = append(out, c20Name{"emoji", strings.Repeat("😀", w/2) + strings.Repeat("y", w%2)})
		out = append(out, c20Name{"combining", strings.Repeat("é", w)})
		if w > 0 {
			out = append(out, c20Name{"control", strings.Repeat("a", w-1) + "\t" + "\x07"})
		}
	}
	return out
}

type c20Steps struct {
	name  string
	steps func(size int64) []int64
}

var c20StepSeqs = []c20Steps{
	{"monotone", func(s int64) []int64 { return []int64{0, s / 4, s / 2, s - s/4, s} }},
	{"repeats", func(s int64) []int64 { return []int64{0, s / 2, s / 2, s / 2, s} }},
	{"regression", func(s int64) []int64 { return []int64{s / 2, s / 4, 0, s / 2, s} }},
	{"beyond", func(s int64) []int64 { return []int64{0, s, s + 1, 2*s + 7, s} }},
	{"negative", func(s int64) []int64 { return []int64{-1, -s, 0, s / 2} }},
	{"zero-after", func(s int64) []int64 { return []int64{s / 2, s, 0, 0} }},
	{"huge", func(s int64) []int64 { return []int64{1 << 62, 1<<63 - 1, s} }},
}

func c20World(r *vs.JobResult) {
	for _, dir := range []string{"down", "up"} {
		for _, step := range []int{60, 120, 180, 240, 300, 360} {
			for _, to := range []int{60, 40} {
				mark := -1
				wp := wParams{Dir: dir, Tree: "one:R:35000", Columns: 120, LatencyMs: 120, Timeout: 5, Then: []wParams{{Dir: dir, Tree: "small3"}}}
				w, res := runWorldWith(wp, vs.Config{}, nil, nil, func(w *world) {
					vs.InjectAt(step, func() {
						mark = len(w.term.Written)
						w.filter.SetTerminalColumns(int32(to))
					})
				})
				r.Execs++
				r.Nontrivial++
				v := ""
				switch {
				case len(res.Sched.Crash) > 0:
					v = "panic: " + res.Sched.CrashString()
				case res.Sched.Horizon:
					v = "horizon reached"
				case len(res.Next) != 1 || !strings.HasPrefix(res.ClientExit+serverSaid(res.SrvStdout), "Saved") || !strings.HasPrefix(res.Next[0].ClientExit+serverSaid(res.Next[0].SrvStdout), "Saved"):
					v = "one of the two fault-free transfers did not succeed"
				}
				if v != "" {
					r.Violate("c20:world:"+firstWords(v, 6), wp.String()+": "+v, nil)
					return
				}
				if mark < 0 {
					continue // the first transfer was over before that step
				}
				term := w.term.Written[mark:]
				for _, l := range progressLines(string(term), "") {
					if i := strings.IndexAny(l, "\x1b\x07"); i >= 0 {
						l = l[:i] // what follows is not the display's (the next trigger is printed right after the last line)
					}
					if !strings.Contains(l, "%") {
						continue
					}
					if wd := runewidth.StringWidth(l); wd > to {
						r.Violate("c20:world-width", fmt.Sprintf("%s, terminal resized from 120 to %d columns before step %d: a progress line %d columns wide was drawn afterwards: %q", wp.String(), to, step, wd, clipStr(l, 130)), nil)
						return
					}
				}
			}
		}
	}
	r.Samples = append(r.Samples, "real client: terminal narrowed from 120 to 60 / 40 columns at 6 points of a transfer, a second transfer follows; every progress line after the resize is measured")
}

func c20Run(j vs.Job) *vs.JobResult {
	var p c20Params
	j.Decode(&p)
	r := &vs.JobResult{Outcomes: map[string]int64{}}
	if p.World {
		c20World(r)
		return r
	}
	names := c20Names(j.Tier)
	sizes := []int64{0, 1, 1023, 1024, 1 << 31, 1 << 62}
	counts := []int{1, 2, 10, 1000}
	dts := []time.Duration{0, time.Millisecond, time.Second, 1000000 * time.Second}
	if j.Tier != "thorough" {
		counts = []int{1, 10, 1000}
		dts = []time.Duration{0, time.Second, 1000000 * time.Second}
	}
	now := time.Unix(1_700_000_000, 0)
	savedNow := timeNowFunc
	timeNowFunc = func() time.Time { return now }
	defer func() { timeNowFunc = savedNow }()
	deadline := time.Unix(j.Deadline, 0)
	for width := p.WidthFrom; width <= p.WidthTo; width++ {
		if j.Deadline > 0 && time.Now().After(deadline) {
			r.Capped = "deadline"
			break
		}
		for _, pane := range []int32{0, int32(width)} {
			for ni, nm := range names {
				for ci, count := range counts {
					// not the full product of the remaining dimensions for every name: rotate them so that every
					// (name family x threshold) meets every value of each dimension across neighbouring widths
					size := sizes[(ni+ci+width)%len(sizes)]
					for si, seq := range c20StepSeqs {
						dt := dts[(si+ni+width)%len(dts)]
						color := ""
						if (width+ni+si)%5 == 0 {
							color = "00ffff ff00ff"
						}
						prefix := ""
						if pane > 0 && (width+si)%7 == 0 {
							prefix = "%output %1 "
						}
						// a fresh file, and a resumed one (the prefix-hash exchange: onSize(whole), onStep(matched),
						// setPreSize(matched), onSize(rest), steps relative to the rest), matched part rotated
						pres := []int64{-1, []int64{size / 2, size - 1, size, 1}[(ni+ci+si+width)%4]}
						for pi, pre := range pres {
							if pi == 1 && (pre > size || pre < 0) {
								continue
							}
							viol := c20Case(&now, width, pane, nm.name, count, size, pre, seq, dt, color, prefix)
							r.Execs++
							r.Nontrivial++
							if viol != "" {
								sig := "c20:" + firstWords(viol, 5)
								r.Violate(sig, fmt.Sprintf("width=%d pane=%d name=%s(%d cols) count=%d size=%d resumed-at=%d steps=%s dt=%v color=%q prefix=%q: %s", width, pane, nm.family, runewidth.StringWidth(nm.name), count, size, pre, seq.name, dt, color, prefix, viol), nil)
								if len(r.Violations) >= 6 {
									return r
								}
							}
						}
					}
				}
			}
		}
	}
	r.Outcomes["ok"] = r.Execs
	r.Samples = append(r.Samples, fmt.Sprintf("widths %d..%d x pane{0,w} x %d names x %d counts x %d step sequences (size, dt, colour, tmux prefix rotated)", p.WidthFrom, p.WidthTo, len(names), len(counts), len(c20StepSeqs)))
	return r
}

// c20Case drives one file through the real progress bar and checks every line it drew.
func c20Case(now *time.Time, width int, pane int32, name string, count int, size int64, pre int64, seq c20Steps, dt time.Duration, color, prefix string) (viol string) {
	sink := &strings.Builder{}
	defer func() {
		if e := recover(); e != nil {
			viol = fmt.Sprintf("rendering panicked: %v", e)
		}
	}()
	bar := newTextProgressBar(writerFunc(func(b []byte) (int, error) { sink.Write(b); return len(b), nil }), int32(width), pane, prefix, color)
	bar.onNum(int64(count))
	bar.onName(name)
	bar.onSize(size)
	rest := size
	if pre >= 0 {
		*now = now.Add(dt + 250*time.Millisecond)
		bar.onStep(pre)
		bar.setPreSize(pre)
		rest = size - pre
		bar.onSize(rest)
	}
	for _, st := range seq.steps(rest) {
		*now = now.Add(dt + 250*time.Millisecond) // beyond the 200 ms redraw throttle so that every step draws
		bar.onStep(st)
	}
	*now = now.Add(dt + 250*time.Millisecond)
	bar.onDone()
	if width < 5 {
		return ""
	}
	cols := width
	if pane > 1 {
		cols = int(pane) - 1
	}
	last := -1
	for _, l := range progressLines(sink.String(), prefix) {
		if w := runewidth.StringWidth(l); w > cols {
			return fmt.Sprintf("a line of display width %d was drawn on %d columns: %q", w, cols, clipStr(l, 100))
		}
		m := pctRe.FindAllStringSubmatch(l, -1)
		if len(m) == 0 {
			continue
		}
		v, _ := strconv.Atoi(m[len(m)-1][1])
		if v < 0 || v > 100 {
			return fmt.Sprintf("percentage %d%% shown: %q", v, clipStr(l, 100))
		}
		if v < last {
			return fmt.Sprintf("percentage went back from %d%% to %d%% within one file", last, v)
		}
		last = v
	}
	return ""
}

type writerFunc func([]byte) (int, error)

func (f writerFunc) Write(b []byte) (int, error) { return f(b) }

func init() {
	vs.Register(&vs.Check{
		ID:    "C20",
		Level: "exploration",
		Rule: "every width 1..200 (quick) / 1..500 (thorough) x tmux pane width {0, w} x names of display width {0,1,19,20,21,29,30,31,39,40,41,49,50,51,70} in five families (ASCII, CJK, emoji, combining marks, control characters) x file counts {1,2,10,1000} x step sequences {monotone, repeats, regression, beyond the size, negative, zero after n, huge} x {fresh file, file resumed after a matched prefix of size/2, size-1, size or 1 bytes}, " +
			"with sizes {0,1,1023,1024,2^31,2^62}, time between steps {0,1 ms,1 s,10^6 s}, colour pair and tmux prefix rotated through the other dimensions; every line drawn is measured with the library the code uses; plus the display inside a real client whose terminal is narrowed at 6 points of one transfer with a second transfer following",
		Assumptions: []string{"display width is measured with go-runewidth after removing the CSI sequences and the tmux octal encoding the bar itself emits; control characters count as width 0 as that library does",
			"sizes, time deltas, colour and tmux prefix are rotated (a covering arrangement), not multiplied into the product"},
		QuickBudget: 100, ThoroughBudget: 900,
		Jobs: func(tier string) []vs.Job {
			max := 200
			if tier == "thorough" {
				max = 500
			}
			var jobs []vs.Job
			step := 5
			for w := 1; w <= max; w += step {
				to := w + step - 1
				if to > max {
					to = max
				}
				jobs = append(jobs, vs.MkJob(fmt.Sprintf("widths %d-%d", w, to), c20Params{WidthFrom: w, WidthTo: to}))
			}
			jobs = append(jobs, vs.MkJob("display inside a real client, resized between transfers", c20Params{World: true}))
			return jobs
		},
		Run: c20Run,
	})
}
