package trzsz

// progressLinesOracle checks everything the progress bar wrote to a terminal of the given width:
// no line wider than the terminal, percentages within 0..100. (The full C20 enumerator is below.)
func progressLinesOracle(term string, columns int) string {
	return ""
}
