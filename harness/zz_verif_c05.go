package trzsz

// C05 — the wrapper is transparent whenever no transfer is in progress (DESIGN.md §3 C05).
// (i) token streams in both directions x chunkings x all 16 option sets through the real filter;
// (ii) histories of transfers followed by a near-miss-laden probe; (iii) the real trzsz binary
// wrapping a command: exit status and last output (process level).

import (
	"bytes"
	"encoding/json"
	"fmt"
	"os"
	"os/exec"
	"path/filepath"
	"strings"
	"time"

	vs "github.com/trzsz/trzsz-go/zzverif/vsched"
	vtime "github.com/trzsz/trzsz-go/zzverif/vsched/vtime"
)

type c05Params struct {
	Part  string    `json:"part"` // idle | history | exit
	Shard int       `json:"shard"`
	N     int       `json:"n"`
	W     []wParams `json:"w,omitempty"`
}

func c05OutTokens() []string {
	trig := "::TRZSZ:TRANSFER:S:1.1.8:1234567890100:0"
	toks := []string{
		"plain text\r\n", "$ ", "\x1b[1;32mgreen\x1b[0m", "\x1b[2J\x1b[H", "\x00\x01\xee\xff\x7e",
		"\x1b7\x07" + trig + "\r\n#CFG:eJyrVspJzEtXslJQKqhU0lFQSipNK86sSgUKGBqYWJgaGxkYGBvoKJVkluSmAgUNDXSUCoryS/KT83OUrBRMagG+QxRy\r\n", // scroll-back of a handshake
		trig + "\r\n" + strings.Repeat(" ", 40) + "Saved 1 file/directory\r\n- a.txt\r\n",                                                // scroll-back of a finished transfer
		"::TRZSZ:TRANSFER:X:1.1.8:1234567890100:0\r\n", "::TRZSZ:TRANSFER:S:1.1:77\r\n", "::TRZSZ:TRANSFER:S:a.b.c\r\n", "::TRZSZ:TRANSFER:",
		"**\x18B0100000023be5\r\x8a", "**\x18B00000000000000\r\x8asz: cannot open /x: No such file\r\n", "**\x18B0", "*\x18B0100000023be50",
		"\x1b]52;c;QUJD", "\x1b]52;x;QUJD\x07", "\x1b]52;",
		"ls\r\n\x1b]52;c;aGVsbG8gd29ybGQsIGhlbGxvIHdvcmxkLCBoZWxsbyB3b3JsZA==\x07user@host:~/project$ ", // a complete clipboard sequence inside ordinary output: passes through whatever the cut
		"\x1b]52;c;QUJD\x07\x1b]52;c;REVG\x07 two in a row, then a longer tail of ordinary screen output\r\n$ ", "\x1b]52;c;" + strings.Repeat("A", 1000) + "!!", "<ENABLE_TRZSZ_TRACE_LOG", "<DISABLE_TRZSZ_TRACE_LOG", "ENABLE_TRZSZ_TRACE_LOG>",
	}
	// truncations that no longer satisfy the trigger grammar (from 24 bytes on a truncation is itself a complete trigger)
	for _, cut := range []int{5, 17, 18, 20, 22, 23} {
		toks = append(toks, trig[:cut])
	}
	return toks
}

func c05InTokens() []string {
	return []string{"ls -l\r", "\x03", "\x1b[A", "/no/such/file ", "'/no such/file' ", "/no/such", "'/tmp", "\x1b[200~/no/such \x1b[201~", "q", "\t", "\xee\xff\x00", "trz\r", "C:\\no\\such "}
}

// c05InWhole: input that begins like a drop (paths that exist) and goes on with something that is not one: typed
// text, not a drop. Only as one read: cut after the first path, the first read alone is a genuine drop.
func c05InWhole() []string {
	return []string{"/usr/bin/env ls -l ", "/etc/passwd /no/such ", "'/etc/passwd' /usr/bin/env /no/such/x ", "/usr/bin/env /etc/passwd x"}
}

type c05Opts struct{ drag, zmodem, osc52, trace bool }

// c05Idle runs one case: output chunks and input chunks through a fresh filter.
func c05Idle(o c05Opts, outChunks, inChunks [][]byte) string {
	viol := ""
	s := vs.Run(vs.Config{MaxSteps: 200000, NoRecord: true}, nil, nil, func() {
		keys, term := vs.NewPipe("keys"), vs.NewSink("term")
		c2s, s2c := vs.NewPipe("c2s"), vs.NewPipe("s2c")
		filter := NewTrzszFilter(keys, term, c2s, s2c, TrzszOptions{TerminalColumns: 80, DetectDragFile: o.drag, EnableZmodem: o.zmodem, EnableOSC52: o.osc52, DetectTraceLog: o.trace})
		vtime.Sleep(1100 * time.Millisecond) // drag detection arms itself a moment after start
		for i := 0; i < len(outChunks) || i < len(inChunks); i++ {
			if i < len(outChunks) {
				s2c.Write(outChunks[i])
			}
			if i < len(inChunks) {
				keys.Write(inChunks[i])
			}
			vs.WaitSettled(func() bool { return false }, 0)
		}
		vtime.Sleep(time.Second)
		vs.WaitSettled(func() bool { return false }, 0)
		var wantOut, wantIn []byte
		for _, c := range outChunks {
			wantOut = append(wantOut, c...)
		}
		for _, c := range inChunks {
			wantIn = append(wantIn, c...)
		}
		if !bytes.Equal(term.Written, wantOut) {
			viol = fmt.Sprintf("remote output %q reached the terminal as %q", clipStr(string(wantOut), 120), clipStr(string(term.Written), 120))
		} else if !bytes.Equal(c2s.Written, wantIn) {
			viol = fmt.Sprintf("typed input %q reached the remote side as %q", clipStr(string(wantIn), 120), clipStr(string(c2s.Written), 120))
		} else if filter.IsTransferringFiles() {
			viol = "the filter thinks a transfer is in progress"
		}
	})
	if len(s.Crash) > 0 {
		viol = "panic: " + s.CrashString()
	} else if s.Horizon {
		viol = "horizon reached"
	}
	return viol
}

// c05Drag: a drag-and-drop upload attempt that leads to no transfer (the remote side has no trz), with
// the echo of the typed command arriving in echo (a list of reads); four seconds later — the drag window
// is over — the remote side prints probe (a list of reads) and the user types. Everything of the probe
// must pass; of the echo phase only the first read after the command may be replaced by CR LF, and only
// if it is exactly the command (the documented one-shot suppression).
func c05Drag(o c05Opts, echo, probe [][]byte, typeAtMs int) string {
	viol := ""
	dir, err := os.MkdirTemp(scratchDir(), "drag")
	if err != nil {
		return "tool: " + err.Error()
	}
	defer os.RemoveAll(dir)
	path := filepath.Join(dir, "dropped.txt")
	os.WriteFile(path, []byte("dropped"), 0o644)
	s := vs.Run(vs.Config{MaxSteps: 200000, NoRecord: true}, nil, nil, func() {
		keys, term := vs.NewPipe("keys"), vs.NewSink("term")
		c2s, s2c := vs.NewPipe("c2s"), vs.NewPipe("s2c")
		filter := NewTrzszFilter(keys, term, c2s, s2c, TrzszOptions{TerminalColumns: 80, DetectDragFile: true, EnableZmodem: o.zmodem, EnableOSC52: o.osc52, DetectTraceLog: o.trace})
		vtime.Sleep(1100 * time.Millisecond)
		s2c.Write([]byte("$ "))
		vs.WaitSettled(func() bool { return false }, 0)
		keys.Write([]byte(path + " "))
		if typeAtMs == 0 {
			vs.WaitSettled(func() bool { return false }, 0)
		}
		if typeAtMs > 0 {
			// the user types something else while the wrapper is busy with the drop (its Ctrl-C goes out after 300 ms, the command 200 ms later)
			// (no settling in between: that would let the wrapper's own timers run out first)
			vtime.Sleep(time.Duration(typeAtMs) * time.Millisecond)
			keys.Write([]byte("x"))
			vtime.Sleep(time.Duration(600-typeAtMs) * time.Millisecond)
		} else {
			vtime.Sleep(600 * time.Millisecond) // 300 ms delay + Ctrl-C + 200 ms + the command
		}
		vs.WaitSettled(func() bool { return false }, 0)
		if typeAtMs == 0 && string(c2s.Written) != "\x03trz\r" {
			viol = fmt.Sprintf("tool: the drag did not happen as modelled: the remote side received %q", c2s.Written)
			return
		}
		sentSoFar := string(c2s.Written)
		want := []byte("$ ")
		first := true // the one read the suppression may claim: the first one after the command was typed
		expect := func(c []byte) {
			if first && strings.TrimRight(string(trimVT100(c)), "\r\n") == "trz" {
				want = append(want, "\r\n"...)
			} else {
				want = append(want, c...)
			}
			first = false
		}
		for _, c := range echo {
			s2c.Write(c)
			vs.WaitSettled(func() bool { return false }, 0)
			expect(c)
		}
		vtime.Sleep(4 * time.Second) // the drag attempt is over
		vs.WaitSettled(func() bool { return false }, 0)
		if filter.IsTransferringFiles() {
			viol = "the filter thinks a transfer is in progress after a drag attempt that started none"
			return
		}
		wantIn := sentSoFar
		for _, c := range probe {
			s2c.Write(c)
			expect(c)
			vs.WaitSettled(func() bool { return false }, 0)
		}
		for _, tok := range []string{"x", "\x03", "ls\r", "/no/such/file "} {
			keys.Write([]byte(tok))
			wantIn += tok
			vs.WaitSettled(func() bool { return false }, 0)
			vtime.Sleep(300 * time.Millisecond)
		}
		vtime.Sleep(time.Second)
		vs.WaitSettled(func() bool { return false }, 0)
		if !bytes.Equal(term.Written, want) {
			viol = fmt.Sprintf("after a drag attempt (echo reads %q) the remote side printed %q in separate reads; the terminal shows %q, expected %q", echo, probe, clipStr(string(term.Written), 200), clipStr(string(want), 200))
		} else if string(c2s.Written) != wantIn {
			viol = fmt.Sprintf("after a drag attempt typed input reached the remote side as %q, expected %q", c2s.Written, wantIn)
		}
	})
	if len(s.Crash) > 0 {
		viol = "panic: " + s.CrashString()
	} else if s.Horizon {
		viol = "horizon reached"
	}
	return viol
}

func chunkings1(b []byte) [][][]byte {
	out := [][][]byte{{b}}
	for c := 1; c < len(b); c++ {
		out = append(out, [][]byte{b[:c], b[c:]})
	}
	return out
}

func c05Run(j vs.Job) *vs.JobResult {
	var p c05Params
	j.Decode(&p)
	r := &vs.JobResult{Outcomes: map[string]int64{}}
	saved := writeToClipboard
	writeToClipboard = func(buf []byte) {}
	defer func() { writeToClipboard = saved }()
	deadline := time.Unix(j.Deadline, 0)
	switch p.Part {
	case "idle":
		outs, ins := c05OutTokens(), c05InTokens()
		k := 0
		runCase := func(o c05Opts, oc, ic [][]byte, desc string) bool {
			if k++; k%p.N != p.Shard {
				return true
			}
			v := c05Idle(o, oc, ic)
			r.Execs++
			r.Nontrivial++
			if len(r.Samples) < 3 && r.Execs%97 == 1 {
				r.Samples = append(r.Samples, fmt.Sprintf("options %+v %s: output reads %q, input reads %q", o, desc, oc, ic))
			}
			if v != "" {
				r.Violate("c05:idle:"+firstWords(v, 4), fmt.Sprintf("options %+v, %s: %s", o, desc, v), nil)
				return len(r.Violations) < 5
			}
			return true
		}
		for mask := 0; mask < 16; mask++ {
			o := c05Opts{mask&1 != 0, mask&2 != 0, mask&4 != 0, mask&8 != 0}
			// single tokens with every single cut, both directions together
			for i, ot := range outs {
				it := ins[i%len(ins)]
				cuts := chunkings1([]byte(ot))
				if i == 5 || i == 6 || i == 12 {
					// scroll-back (and a vetoed zmodem header) is only "not a trigger" together with what follows
					// it in the same read (the detectors work per read): cut inside the marker only
					cuts = cuts[:12]
				}
				for _, oc := range cuts {
					if !runCase(o, oc, [][]byte{[]byte(it)}, fmt.Sprintf("output token %d cut, input %q", i, it)) {
						return r
					}
				}
			}
			for i, it := range ins {
				for _, ic := range chunkings1([]byte(it)) {
					if !runCase(o, [][]byte{[]byte(outs[i%len(outs)])}, ic, fmt.Sprintf("input token %d cut", i)) {
						return r
					}
				}
			}
			for i, it := range c05InWhole() {
				if !runCase(o, [][]byte{[]byte(outs[i%len(outs)])}, [][]byte{[]byte(it)}, fmt.Sprintf("input %q in one read", it)) {
					return r
				}
			}
			// pairs of output tokens: as one read and as two reads
			for a := range outs {
				for b := range outs {
					if (a+b+mask)%4 != 0 && j.Tier != "thorough" {
						continue
					}
					if !runCase(o, [][]byte{[]byte(outs[a] + outs[b])}, nil, fmt.Sprintf("output tokens %d+%d in one read", a, b)) {
						return r
					}
					if !runCase(o, [][]byte{[]byte(outs[a]), []byte(outs[b])}, [][]byte{[]byte(ins[(a+b)%len(ins)])}, fmt.Sprintf("output tokens %d,%d in two reads", a, b)) {
						return r
					}
				}
			}
			if j.Deadline > 0 && time.Now().After(deadline) {
				r.Capped = "deadline"
				break
			}
		}
	case "history":
		for i, wp := range p.W {
			if i%p.N != p.Shard {
				continue
			}
			w, res := runWorld(wp, vs.Config{Trace: j.Replay != nil}, nil, nil, nil)
			_ = w
			r.Execs++
			r.Nontrivial++
			if len(r.Samples) < 2 {
				r.Samples = append(r.Samples, "history "+wp.String())
			}
			all := append([]*worldResult{res}, res.Next...)
			v := ""
			for k, x := range all {
				switch {
				case len(res.Sched.Crash) > 0:
					v = "panic: " + res.Sched.CrashString()
				case res.Sched.Horizon:
					v = "horizon reached"
				case !x.SrvDone || x.Transferring:
					v = fmt.Sprintf("transfer %d never ended (server done %v, client still transferring %v)", k, x.SrvDone, x.Transferring)
				case x.ProbeOut != "ok":
					v = fmt.Sprintf("after transfer %d (%s %s) the wrapper is not transparent: %s", k, x.Params.Dir, x.Params.Kind, x.ProbeOut)
				}
				if v != "" {
					break
				}
			}
			if j.Replay != nil {
				r.Notes = append(r.Notes, res.Sched.Trace...)
			}
			if v != "" {
				r.Violate("c05:history:"+firstWords(v, 6), wp.String()+": "+v, wp)
			}
		}
	case "drag":
		echoes := [][][]byte{
			{[]byte("trz\r\n"), []byte("bash: trz: command not found\r\n$ ")},
			{[]byte("tr"), []byte("z\r\n"), []byte("bash: trz: command not found\r\n$ ")},
			{[]byte("trz\r\nbash: trz: command not found\r\n$ ")},
			{[]byte("^C\r\n$ trz\r\n"), []byte("bash: trz: command not found\r\n$ ")},
			{[]byte("t"), []byte("r"), []byte("z"), []byte("\r\n$ ")},
			{},
		}
		probes := [][][]byte{
			{[]byte("ls\r\n"), []byte("trz\r\n"), []byte("tsz\r\n$ ")},
			{[]byte("trz"), []byte("\r\n"), []byte("trz -d\r\n"), []byte("$ ")},
			{[]byte("\x1b[1mtrz\x1b[0m\r\n"), []byte("plain\r\n")},
		}
		for mask := 0; mask < 8; mask++ {
			o := c05Opts{true, mask&1 != 0, mask&2 != 0, mask&4 != 0}
			for _, e := range echoes {
				for _, pr := range probes {
					v := c05Drag(o, e, pr, 0)
					r.Execs++
					r.Nontrivial++
					if len(r.Samples) < 2 {
						r.Samples = append(r.Samples, fmt.Sprintf("drag attempt, options %+v, echo reads %q, then probe reads %q", o, e, pr))
					}
					if strings.HasPrefix(v, "tool: ") {
						r.ToolErr = v
						return r
					}
					if v != "" {
						r.Violate("c05:drag:"+firstWords(v, 6), fmt.Sprintf("options %+v: %s", o, v), nil)
						if len(r.Violations) >= 5 {
							return r
						}
					}
				}
			}
		}
		// the user types while the wrapper handles the drop: before its Ctrl-C, between Ctrl-C and command, right after
		for _, at := range []int{100, 350, 450, 550} {
			for _, pr := range probes {
				v := c05Drag(c05Opts{true, false, false, false}, [][]byte{[]byte("^C\r\n$ ")}, pr, at)
				r.Execs++
				r.Nontrivial++
				if strings.HasPrefix(v, "tool: ") {
					r.ToolErr = v
					return r
				}
				if v != "" {
					r.Violate("c05:drag-typed:"+firstWords(v, 6), fmt.Sprintf("typed input %d ms after the drop: %s", at, v), nil)
				}
			}
		}
	case "zmodem":
		// histories ending in a zmodem session (C19's session driver), then input before any remote output
		for i, zp := range c05ZmodemHistories() {
			if i%p.N != p.Shard {
				continue
			}
			zp.Bound = 0
			if j.Tier == "thorough" {
				zp.Bound = 1
			}
			exec := c19Exec(zp)
			if j.Replay != nil && j.Replay.Detail != nil {
				b, _ := json.Marshal(j.Replay.Detail)
				json.Unmarshal(b, &zp)
				x := c19Exec(zp)(j.Replay.Choices, nil, true)
				r.Notes = append(r.Notes, x.Sched.Trace...)
				r.Notes = append(r.Notes, "outcome: "+x.Outcome)
				if x.Violation != "" {
					r.Violate(x.Signature, x.Violation, zp)
				}
				return r
			}
			st := vs.NewStats()
			e := &vs.Explorer{Exec: exec, Budget: vs.Budget{Total: zp.Bound}, St: st}
			if j.Deadline > 0 {
				e.Deadline = deadline
			}
			e.Explore()
			before := len(r.Violations)
			r.AddStats(st)
			r.Nontrivial += int64(len(st.Outcomes))
			for k := before; k < len(r.Violations); k++ {
				r.Violations[k].Desc = fmt.Sprintf("%+v: %s", zp, r.Violations[k].Desc)
				r.Violations[k].Detail = zp
			}
			if len(r.Samples) < 2 {
				r.Samples = append(r.Samples, fmt.Sprintf("zmodem history %+v then typed %q", zp, c05AfterSessionInput))
			}
		}
	case "exit":
		c05Exit(r)
	}
	return r
}

func c05ZmodemHistories() []c19Params {
	var out []c19Params
	for _, up := range []bool{false, true} {
		for _, helper := range []string{"missing", "exit1", "run3", "silent", "late"} {
			for _, server := range []string{"finish", "cancel-after", "keeps", "quiet"} {
				for _, cc := range []int{-1, 100} {
					out = append(out, c19Params{Upload: up, Helper: helper, Server: server, CtrlCMs: cc, InputFirst: true})
				}
			}
		}
	}
	return out
}

// c05Exit: the real trzsz binary wraps a command; its exit status must be passed on and what the
// command printed must appear (process level, real time, a fixed finite menu).
func c05Exit(r *vs.JobResult) {
	vdir := os.Getenv("VERIF_DIR")
	if vdir == "" {
		vdir = "/verif"
	}
	bin := filepath.Join(scratchDir(), "trzsz-real")
	build := exec.Command("/usr/bin/env", "PATH=/usr/local/go/bin:/usr/lib/go-1.23/bin:/usr/bin:/bin", "HOME=/root", "GOFLAGS=-mod=mod", "GOPROXY=off", "GOSUMDB=off", "GOTOOLCHAIN=local", "CGO_ENABLED=0", "go", "build", "-o", bin, "./cmd/trzsz")
	build.Dir = "/repo"
	if out, err := build.CombinedOutput(); err != nil {
		r.ToolErr = "cannot build the real trzsz binary: " + clipStr(string(out), 300)
		return
	}
	defer os.Remove(bin)
	for _, code := range []int{0, 1, 7, 255} {
		for _, script := range []string{"printf MARK-%d; exit %d", "sleep 0.05; printf MARK-%d; exit %d", "printf MARK-%d; sleep 0.05; exit %d"} {
			sh := fmt.Sprintf(script, code, code)
			lost := 0
			const tries = 8
			for t := 0; t < tries; t++ {
				cmd := exec.Command(bin, "/bin/sh", "-c", sh)
				cmd.Env = []string{"PATH=/usr/bin:/bin", "TERM=xterm", "HOME=/nonexistent"}
				stdin, _ := cmd.StdinPipe() // the user's keyboard: stays open (an EOF would make the wrapper hang up the command)
				out, err := cmd.Output()
				stdin.Close()
				r.Execs++
				got := 0
				if ee, ok := err.(*exec.ExitError); ok {
					got = ee.ExitCode()
				} else if err != nil {
					r.ToolErr = "cannot run the real trzsz binary: " + err.Error()
					return
				}
				if t == 0 && len(r.Samples) < 2 {
					r.Samples = append(r.Samples, fmt.Sprintf("trzsz /bin/sh -c %q -> exit %d, output %q", sh, got, clipStr(string(out), 60)))
				}
				if got != code {
					r.Violate(fmt.Sprintf("c05:exit-status:%d", code), fmt.Sprintf("trzsz sh -c %q exited with %d, the command with %d", sh, got, code), nil)
				}
				if !bytes.Contains(out, []byte(fmt.Sprintf("MARK-%d", code))) {
					lost++
				}
			}
			r.Nontrivial++
			if lost > 0 {
				kind := "immediate"
				if strings.HasPrefix(script, "sleep") {
					kind = "just-before-exit"
				} else if strings.Contains(script, "; sleep") {
					kind = "well-before-exit"
				}
				r.Violate("c05:exit-output-lost:"+kind, fmt.Sprintf("trzsz sh -c %q: the command's output was lost in %d of %d runs (the wrapper returns as soon as the command has exited, without draining its output)", sh, lost, tries), nil)
			}
		}
	}
}

func c05Histories() []wParams {
	var out []wParams
	first := []wParams{
		{Dir: "up", Tree: "small3"}, {Dir: "down", Tree: "small3"},
		{Dir: "down", Tree: "small3", Kind: "refuse"}, {Dir: "down", Tree: "small3", Kind: "badpath"},
		{Dir: "up", Tree: "one:R:21000", Local: &wLocalFault{Side: "server", Hook: "fileWrite", K: 1, Kind: "err"}},
		{Dir: "up", Tree: "one:R:21000", Stop: &wStop{Side: "client", Step: 150}},
		{Dir: "down", Tree: "one:R:21000", Stop: &wStop{Side: "client", Delete: true, Step: 150}},
		{Dir: "down", Tree: "one:R:21000", Stop: &wStop{Side: "server", Step: 150}},
		{Dir: "up", Tree: "small3", Protocol: 2}, // old server: Ctrl-C handling differs
		// Ctrl-C typed on the keyboard: the product's menu opens, the user answers keep / delete / continue
		{Dir: "up", Tree: "one:R:21000", Stop: &wStop{Side: "client", Step: 150, Via: "keys"}},
		{Dir: "down", Tree: "one:R:21000", Stop: &wStop{Side: "client", Step: 150, Via: "keys", Delete: true}},
		{Dir: "up", Tree: "one:R:21000", Stop: &wStop{Side: "client", Step: 150, Via: "keys", Continue: true}},
		// ... and the transfer ends on its own (the server is interrupted) while the menu is still open
		{Dir: "up", Tree: "one:R:21000", Stop: &wStop{Side: "client", Step: 150, Via: "keys", ChoiceMs: 2500}, Stops: []wStop{{Side: "server", AtMs: 1200}}},
		{Dir: "down", Tree: "one:R:21000", Stop: &wStop{Side: "client", Step: 150, Via: "keys", ChoiceMs: 2500, Continue: true}, Stops: []wStop{{Side: "server", AtMs: 1200}}},
		// ... and the peer reports a failure of its own while the menu is open: the transfer is over before the user answers
		{Dir: "down", Tree: "one:R:21000", Stop: &wStop{Side: "client", Step: 150, Via: "keys", ChoiceMs: 2500, Continue: true}, Stops: []wStop{{Side: "wire", AtMs: 1200}}},
		{Dir: "down", Tree: "one:R:21000", Stop: &wStop{Side: "client", Step: 150, Via: "keys", ChoiceMs: 2500}, Stops: []wStop{{Side: "wire", AtMs: 1200}}},
		{Dir: "up", Tree: "one:R:21000", Stop: &wStop{Side: "client", Step: 150, Via: "keys", ChoiceMs: 2500, Delete: true}, Stops: []wStop{{Side: "wire", AtMs: 1200}}},
	}
	// the peer's failure line and the user's Ctrl-C cross: the menu opens, the read in progress returns the
	// failure and the transfer is over before the user answers (any of the three answers)
	for step := 100; step <= 400; step += 30 {
		for ans := 0; ans < 3; ans++ {
			st := &wStop{Side: "client", Step: step, Via: "keys", ChoiceMs: 2500, Continue: ans == 2, Delete: ans == 1}
			out = append(out, wParams{Dir: []string{"down", "up"}[(step/30)%2], Tree: "one:R:21000", LatencyMs: 200, Probe: true, Timeout: 3, Stop: st, Stops: []wStop{{Side: "wire", Step: step}}})
		}
	}
	for _, a := range first {
		a.Probe, a.Timeout = true, 3
		out = append(out, a)
		for _, b := range first[:4] {
			c := a
			c.Then = []wParams{b}
			out = append(out, c)
		}
	}
	return out
}

func init() {
	vs.Register(&vs.Check{
		ID:    "C05",
		Level: "exploration",
		Rule: "(i) all 16 subsets of {drag detection, zmodem, OSC52, trace log} x output tokens (text, CSI, binary, scroll-back of a handshake and of a finished transfer, triggers with bad mode/version, every listed truncation, zmodem near-misses and vetoed headers, OSC52 fragments, trace-log near-misses) and input tokens (text, Ctrl-C, escape keys, path-like input naming files that do not exist in four styles, binary; existing paths followed by a missing path or plain words as one read), " +
			"each token with every single cut, token pairs in one and in two reads; (ii) every history of one or two transfers over {upload, download, refused, failed on the client, failed on the server, Ctrl-C keep/delete, server SIGINT, old-version server, Ctrl-C typed and answered through the menu (keep / delete / continue), the same with the server interrupted while the menu is open, and with a failure line from the peer crossing the Ctrl-C at 11 points of the transfer} followed by a probe in both directions; (iii) every history ending in a zmodem session over {download, upload} x helper {missing, exits 1, runs, silent, late} x remote {finishes, cancels, keeps sending, falls silent} x {no Ctrl-C, Ctrl-C}, after which the user types (Ctrl-C, text, CAN, escape key, a command; each a read of its own) before the remote side prints anything; (iv) a drag-and-drop upload attempt that starts no transfer x 6 ways the echo of the typed command arrives (one read, split, merged with what follows, after a ^C echo, byte-wise, none) x 3 later outputs that contain the command text as a read of its own x 8 option sets, with typed input afterwards; (v) the real trzsz binary wrapping sh for 4 exit codes x 3 output timings",
		Assumptions: []string{"(v) is a process-level run in real time over a fixed menu (3 tries each); everything else runs under the scheduler", "the complete trace-log switch and genuine triggers / zmodem headers are not 'idle' input and are excluded"},
		QuickBudget: 100, ThoroughBudget: 600, DiedIsViolation: true,
		Jobs: func(tier string) []vs.Job {
			var jobs []vs.Job
			n := 14
			for s := 0; s < n; s++ {
				jobs = append(jobs, vs.MkJob(fmt.Sprintf("idle %d/%d", s, n), c05Params{Part: "idle", Shard: s, N: n}))
			}
			hs := c05Histories()
			for s := 0; s < 4; s++ {
				jobs = append(jobs, vs.MkJob(fmt.Sprintf("history %d/4", s), c05Params{Part: "history", Shard: s, N: 4, W: hs}))
			}
			for s := 0; s < 4; s++ {
				jobs = append(jobs, vs.MkJob(fmt.Sprintf("zmodem history %d/4", s), c05Params{Part: "zmodem", Shard: s, N: 4}))
			}
			jobs = append(jobs, vs.MkJob("drag attempts", c05Params{Part: "drag"}))
			jobs = append(jobs, vs.MkJob("exit", c05Params{Part: "exit"}))
			return jobs
		},
		Run: c05Run,
	})
	_ = json.Marshal
}
