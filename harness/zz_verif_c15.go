package trzsz

// C15 — a directory sent as one archive stream is reconstructed exactly (DESIGN.md §3 C15).
// Exhaustive small-scope enumeration: every tree shape with up to four entries, every producer read
// size of a menu, every single cut (and, for a core, every pair of cuts) of the stream on the
// consuming side, through the real archiveFileReader / archiveFileWriter; descriptor growth on a
// 300-entry tree; source files that shrink or grow between scan and read.

import (
	"bytes"
	"fmt"
	"io"
	"os"
	"path/filepath"
	"runtime/debug"
	"strings"
	"time"

	vs "github.com/trzsz/trzsz-go/zzverif/vsched"
)

type c15Params struct {
	Part  string `json:"part"` // shapes | pairs | big | fds | fanout | mutate
	Shard int    `json:"shard"`
	N     int    `json:"n"`
}

type c15Entry struct {
	parent int  // -1: directly below the root, otherwise index of an earlier directory entry
	kind   byte // 'D' dir, '0' empty file, '1' one byte, '3' three bytes
}

func c15Shapes(max int) [][]c15Entry {
	var out [][]c15Entry
	var rec func(cur []c15Entry)
	rec = func(cur []c15Entry) {
		out = append(out, append([]c15Entry(nil), cur...))
		if len(cur) == max {
			return
		}
		parents := []int{-1}
		for i, e := range cur {
			if e.kind == 'D' && e.parent == -1 { // depth <= 2
				parents = append(parents, i)
			}
		}
		for _, p := range parents {
			for _, k := range []byte{'D', '0', '1', '3'} {
				rec(append(cur, c15Entry{p, k}))
			}
		}
	}
	rec(nil)
	return out
}

func c15Build(root string, shape []c15Entry) {
	must(os.MkdirAll(filepath.Join(root, "r"), 0o755))
	names := make([]string, len(shape))
	for i, e := range shape {
		base := filepath.Join(root, "r")
		if e.parent >= 0 {
			base = names[e.parent]
		}
		names[i] = filepath.Join(base, fmt.Sprintf("e%d-%c", i, e.kind))
		switch e.kind {
		case 'D':
			must(os.MkdirAll(names[i], 0o755))
		case '0':
			must(os.WriteFile(names[i], nil, 0o644))
		case '1':
			must(os.WriteFile(names[i], []byte{byte('A' + i)}, 0o644))
		case '3':
			must(os.WriteFile(names[i], []byte{byte('a' + i), '\n', 0xee}, 0o644))
		}
	}
}

// c15Produce scans root/r and returns the archive stream read with the given read size.
// c15Newline, if set, is the line ending negotiated for the transfer whose archive is produced.
var c15Newline string

func c15Produce(root string, readSize int) (top *sourceFile, stream []byte, announced int64, err error) {
	files, err := checkPathsReadable([]string{filepath.Join(root, "r")}, true)
	if err != nil {
		return nil, nil, 0, err
	}
	t := newTransfer(io.Discard, nil, false, nil)
	t.transferConfig.Protocol = kProtocolVersion4
	if c15Newline != "" {
		t.transferConfig.Newline = c15Newline // the negotiated line ending of the protocol lines ("!\n" with a Windows peer)
	}
	tops := t.archiveSourceFiles(files)
	if len(tops) != 1 {
		return nil, nil, 0, fmt.Errorf("expected one archive, got %d", len(tops))
	}
	top = tops[0]
	if len(top.SubFiles) == 0 {
		return top, nil, 0, nil // an empty directory is not sent as an archive
	}
	rd, err := t.newArchiveReader(top)
	if err != nil {
		return nil, nil, 0, err
	}
	defer rd.Close()
	announced = rd.getSize()
	buf := make([]byte, readSize)
	for i := 0; i < 1<<22; i++ {
		n, e := rd.Read(buf)
		stream = append(stream, buf[:n]...)
		if e == io.EOF {
			return top, stream, announced, nil
		}
		if e != nil {
			return top, stream, announced, e
		}
	}
	return top, stream, announced, fmt.Errorf("archive reader does not terminate")
}

// c15Consume writes the stream, cut at the given offsets, into dst through the real archive writer.
func c15Consume(dst string, top *sourceFile, stream []byte, cuts []int) error {
	t := newTransfer(io.Discard, nil, false, nil)
	t.transferConfig.Protocol = kProtocolVersion4
	t.transferConfig.Directory = true
	hdr := *top
	hdr.Archive = true
	hdr.SubFiles = nil
	w, _, err := t.createDirOrFile(dst, &hdr, false)
	if err != nil {
		return err
	}
	prev := 0
	for _, c := range append(append([]int{}, cuts...), len(stream)) {
		if c <= prev || c > len(stream) {
			continue
		}
		if err := writeAll(w, stream[prev:c]); err != nil {
			w.Close()
			return err
		}
		prev = c
	}
	return w.Close()
}

func c15Compare(src, dst string) string {
	a, b := snapshot(filepath.Join(src, "r")), snapshot(filepath.Join(dst, "r"))
	return snapDiff(a, b)
}

func countFds() int {
	ents, _ := os.ReadDir("/proc/self/fd")
	return len(ents)
}

func c15Run(j vs.Job) *vs.JobResult {
	var p c15Params
	j.Decode(&p)
	r := &vs.JobResult{Outcomes: map[string]int64{}}
	defer func() {
		if e := recover(); e != nil {
			r.Violate("c15:panic", fmt.Sprintf("panic: %v", e), nil)
		}
	}()
	base := filepath.Join(scratchDir(), fmt.Sprintf("c15-%d", os.Getpid()))
	os.RemoveAll(base)
	defer os.RemoveAll(base)
	seq := 0
	fresh := func() string {
		seq++
		d := filepath.Join(base, fmt.Sprintf("d%d", seq))
		must(os.MkdirAll(d, 0o755))
		return d
	}
	deadline := time.Unix(j.Deadline, 0)
	check := func(label, src string, top *sourceFile, stream []byte, cuts []int) bool {
		dst := fresh()
		err := c15Consume(dst, top, stream, cuts)
		r.Execs++
		ok := true
		if err != nil {
			r.Violate("c15:consume:"+firstWords(err.Error(), 4), fmt.Sprintf("%s cuts %v: writing the stream failed: %v", label, cuts, clipStr(err.Error(), 200)), nil)
			ok = false
		} else if d := c15Compare(src, dst); d != "" {
			r.Violate("c15:tree", fmt.Sprintf("%s cuts %v: reconstructed tree differs: %s", label, cuts, d), nil)
			ok = false
		}
		os.RemoveAll(dst)
		return ok
	}
	switch p.Part {
	case "shapes":
		shapes := c15Shapes(4)
		for si, shape := range shapes {
			if si%p.N != p.Shard {
				continue
			}
			if j.Deadline > 0 && time.Now().After(deadline) {
				r.Capped = "deadline"
				break
			}
			src := fresh()
			c15Build(src, shape)
			label := fmt.Sprintf("shape %v", shape)
			var ref []byte
			var top *sourceFile
			for _, rs := range []int{1, 2, 3, 7, 64, 32768} {
				tp, stream, announced, err := c15Produce(src, rs)
				r.Execs++
				if err != nil {
					r.Violate("c15:produce", fmt.Sprintf("%s read size %d: %v", label, rs, err), nil)
					break
				}
				if int64(len(stream)) != announced {
					r.Violate("c15:size", fmt.Sprintf("%s read size %d: announced %d bytes, produced %d", label, rs, announced, len(stream)), nil)
				}
				if ref == nil {
					ref, top = stream, tp
				} else if !bytes.Equal(ref, stream) {
					r.Violate("c15:readsize", fmt.Sprintf("%s: the stream depends on the producer's read size (%d)", label, rs), nil)
				}
			}
			if len(shape) == 0 || top == nil || len(ref) == 0 {
				os.RemoveAll(src)
				continue
			}
			r.Nontrivial++
			// whole, every single cut, every uniform chunk size
			good := check(label, src, top, ref, nil)
			for c := 1; c < len(ref) && good; c++ {
				good = check(label, src, top, ref, []int{c})
			}
			for size := 1; size <= 8 && good; size++ {
				var cuts []int
				for c := size; c < len(ref); c += size {
					cuts = append(cuts, c)
				}
				good = check(label, src, top, ref, cuts)
			}
			if len(r.Samples) < 2 {
				r.Samples = append(r.Samples, fmt.Sprintf("%s: stream of %d bytes, every single cut and uniform chunk sizes 1..8", label, len(ref)))
			}
			os.RemoveAll(src)
			if len(r.Violations) >= 4 {
				break
			}
		}
	case "pairs":
		// every pair of cuts on a core of trees
		core := [][]c15Entry{
			{{-1, 'D'}, {0, '3'}, {-1, '0'}, {-1, '1'}},
			{{-1, '3'}, {-1, 'D'}, {1, 'D'}, {1, '0'}},
			{{-1, '1'}, {-1, '1'}},
		}
		for ci, shape := range core {
			src := fresh()
			c15Build(src, shape)
			top, stream, _, err := c15Produce(src, 64)
			if err != nil {
				r.ToolErr = err.Error()
				return r
			}
			k := 0
			for a := 1; a < len(stream); a++ {
				for b := a + 1; b < len(stream); b++ {
					if k++; k%p.N != p.Shard {
						continue
					}
					if !check(fmt.Sprintf("core %d", ci), src, top, stream, []int{a, b}) {
						return r
					}
					r.Nontrivial++
				}
			}
		}
	case "big":
		// several read buffers, unicode names, empty directories
		src := fresh()
		must(os.MkdirAll(filepath.Join(src, "r", "空 dir", "inner"), 0o755))
		must(os.MkdirAll(filepath.Join(src, "r", "empty"), 0o755))
		must(os.WriteFile(filepath.Join(src, "r", "big.bin"), genContent('R', 9, 70000), 0o644))
		must(os.WriteFile(filepath.Join(src, "r", "空 dir", "héllo ☃.txt"), genContent('T', 3, 33000), 0o644))
		must(os.WriteFile(filepath.Join(src, "r", "空 dir", "inner", "z"), nil, 0o644))
		var ref []byte
		var top *sourceFile
		for _, rs := range []int{1, 7, 64, 32768, 100000} {
			tp, stream, announced, err := c15Produce(src, rs)
			r.Execs++
			if err != nil || int64(len(stream)) != announced || (ref != nil && !bytes.Equal(ref, stream)) {
				r.Violate("c15:big-produce", fmt.Sprintf("big tree read size %d: err %v announced %d produced %d", rs, err, announced, len(stream)), nil)
				return r
			}
			ref, top = stream, tp
		}
		// the archive stream is the same whatever line ending the protocol lines around it use
		c15Newline = "!\n"
		_, wstream, wannounced, werr := c15Produce(src, 4096)
		c15Newline = ""
		r.Execs++
		if werr != nil || int64(len(wstream)) != wannounced || !bytes.Equal(wstream, ref) {
			r.Violate("c15:big-produce-winnl", fmt.Sprintf("big tree with the Windows line ending negotiated: err %v announced %d produced %d (same stream as otherwise: %v)", werr, wannounced, len(wstream), bytes.Equal(wstream, ref)), nil)
			return r
		}
		// boundaries of every header and payload, +-1, and a fixed stride in between
		var cuts []int
		for i := 0; i < len(ref); i++ {
			if ref[i] == '\n' {
				cuts = append(cuts, i, i+1, i+2)
			}
		}
		for c := 1; c < len(ref); c += 997 {
			cuts = append(cuts, c)
		}
		for _, c := range cuts {
			if c > 0 && c < len(ref) {
				if !check("big", src, top, ref, []int{c}) {
					return r
				}
				r.Nontrivial++
			}
		}
		for _, size := range []int{1, 2, 3, 5, 64, 1000, 32768} {
			var cs []int
			for c := size; c < len(ref); c += size {
				cs = append(cs, c)
			}
			if !check("big", src, top, ref, cs) {
				return r
			}
		}
	case "longnames":
		// deep paths of long, poorly compressible unicode names: entry headers of more than a kilobyte, cut everywhere
		src := fresh()
		name := func(seed int) string {
			var sb strings.Builder
			for i := 0; i < 80; i++ {
				sb.WriteRune(rune(0x4e00 + (seed*7919+i*104729)%20000))
			}
			return sb.String()
		}
		deep := filepath.Join(src, "r", name(1), name(2), name(3))
		must(os.MkdirAll(deep, 0o755))
		must(os.WriteFile(filepath.Join(deep, name(4)+".txt"), genContent('T', 5, 1500), 0o644))
		must(os.WriteFile(filepath.Join(src, "r", name(1), name(5)), genContent('R', 6, 10), 0o644))
		must(os.MkdirAll(filepath.Join(src, "r", name(1), name(2), name(6)), 0o755))
		top, ref, announced, err := c15Produce(src, 4096)
		if err != nil || int64(len(ref)) != announced {
			r.Violate("c15:longnames-produce", fmt.Sprintf("long-name tree: err %v announced %d produced %d", err, announced, len(ref)), nil)
			return r
		}
		longest := 0
		for _, l := range bytes.Split(ref, []byte("\n")) {
			if len(l) > longest {
				longest = len(l)
			}
		}
		r.Max("longest_header_bytes", float64(longest))
		for c := 1; c < len(ref); c++ {
			if !check("longnames", src, top, ref, []int{c}) {
				return r
			}
			r.Nontrivial++
		}
		for _, size := range []int{1, 2, 3, 5, 64, 500, 1000, 1023, 1024, 1025, 1500, 4096} {
			var cs []int
			for c := size; c < len(ref); c += size {
				cs = append(cs, c)
			}
			if !check("longnames", src, top, ref, cs) {
				return r
			}
		}
		r.Samples = append(r.Samples, fmt.Sprintf("long-name tree: stream of %d bytes, longest header line %d bytes, every single cut and 12 uniform write sizes", len(ref), longest))
	case "fds":
		// more entries than descriptors: use must not grow with the entry count
		old := debug.SetGCPercent(-1) // finalizers must not mask a leak
		defer debug.SetGCPercent(old)
		src := fresh()
		must(os.MkdirAll(filepath.Join(src, "r"), 0o755))
		for i := 0; i < 300; i++ {
			content := []byte(fmt.Sprintf("entry %d", i))
			if i%3 == 0 {
				content = nil // empty files never reach the payload branch of the writer
			}
			must(os.WriteFile(filepath.Join(src, "r", fmt.Sprintf("f%03d", i)), content, 0o644))
		}
		baseFds := countFds()
		files, _ := checkPathsReadable([]string{filepath.Join(src, "r")}, true)
		t := newTransfer(io.Discard, nil, false, nil)
		t.transferConfig.Protocol = kProtocolVersion4
		top := t.archiveSourceFiles(files)[0]
		rd, err := t.newArchiveReader(top)
		must(err)
		var stream []byte
		buf := make([]byte, 64)
		maxProd := 0
		for {
			n, e := rd.Read(buf)
			stream = append(stream, buf[:n]...)
			if f := countFds() - baseFds; f > maxProd {
				maxProd = f
			}
			if e != nil {
				break
			}
		}
		rd.Close()
		r.Execs++
		r.Max("producer_fds_above_baseline_max", float64(maxProd))
		if maxProd > 2 {
			r.Violate("c15:fd-growth-producer", fmt.Sprintf("the producer held up to %d descriptors above the baseline while reading a 300-entry tree", maxProd), nil)
		}
		dst := fresh()
		t2 := newTransfer(io.Discard, nil, false, nil)
		t2.transferConfig.Protocol = kProtocolVersion4
		t2.transferConfig.Directory = true
		hdr := *top
		hdr.Archive, hdr.SubFiles = true, nil
		baseFds = countFds()
		w, _, err := t2.createDirOrFile(dst, &hdr, false)
		must(err)
		maxCons := 0
		for c := 0; c < len(stream); c += 50 {
			e := c + 50
			if e > len(stream) {
				e = len(stream)
			}
			if err := writeAll(w, stream[c:e]); err != nil {
				r.Violate("c15:fd-consume", "writing the 300-entry archive failed: "+err.Error(), nil)
				break
			}
			if f := countFds() - baseFds; f > maxCons {
				maxCons = f
			}
		}
		w.Close()
		r.Execs++
		r.Nontrivial += 2
		r.Max("consumer_fds_above_baseline_max", float64(maxCons))
		if maxCons > 2 {
			r.Violate("c15:fd-growth-consumer", fmt.Sprintf("the consumer held up to %d descriptors above the baseline while writing a 300-entry tree", maxCons), nil)
		}
		if d := c15Compare(src, dst); d != "" {
			r.Violate("c15:fd-tree", "300-entry tree differs: "+d, nil)
		}
	case "fanout":
		// wide directories: more direct entries than any plausible batch of a directory read (top level and nested)
		for _, n := range []int{1025, 4500} {
			src := fresh()
			wide := filepath.Join(src, "r", "wide")
			must(os.MkdirAll(wide, 0o755))
			for i := 0; i < n; i++ {
				switch {
				case i%97 == 0:
					must(os.MkdirAll(filepath.Join(src, "r", fmt.Sprintf("d%05d", i)), 0o755))
				case i%3 == 0:
					must(os.WriteFile(filepath.Join(src, "r", fmt.Sprintf("f%05d", i)), nil, 0o644))
				default:
					must(os.WriteFile(filepath.Join(src, "r", fmt.Sprintf("f%05d", i)), []byte(fmt.Sprintf("entry %d", i)), 0o644))
				}
				must(os.WriteFile(filepath.Join(wide, fmt.Sprintf("w%05d", i)), []byte{byte(i)}, 0o644))
			}
			top, stream, announced, err := c15Produce(src, 32768)
			r.Execs++
			r.Nontrivial++
			if err != nil {
				r.Violate("c15:fanout-produce", fmt.Sprintf("a directory with %d direct entries cannot be produced: %v", n, err), nil)
				return r
			}
			if announced != int64(len(stream)) {
				r.Violate("c15:fanout-size", fmt.Sprintf("%d direct entries: announced %d, produced %d", n, announced, len(stream)), nil)
				return r
			}
			dst := fresh()
			if err := c15Consume(dst, top, stream, nil); err != nil {
				r.Violate("c15:fanout-consume", fmt.Sprintf("%d direct entries: writing the archive failed: %v", n, err), nil)
				return r
			}
			if d := c15Compare(src, dst); d != "" {
				r.Violate("c15:fanout-tree", fmt.Sprintf("a tree whose directories have %d direct entries is not reconstructed: %s", n, clipStr(d, 300)), nil)
				return r
			}
			r.Max("fanout_entries_max", float64(2*n))
		}
	case "mutate":
		// a source file changes length between the scan and the read, and after every k-th read of the producer
		// (k = 0: before the first read; the file may be unopened, open and partly read, or done by then)
		for _, which := range []int{0, 1, 2} {
			for _, change := range []string{"shrink", "shrink-to-0", "grow"} {
				for _, rs := range []int{1, 7, 64, 32768} {
					if rs == 1 && j.Tier != "thorough" {
						continue
					}
					reads := 0                              // learnt from the run with when = 0
					for when := -1; when <= reads; when++ { // -1: after the scan, before the reader (and its announced size) exists
						src := fresh()
						must(os.MkdirAll(filepath.Join(src, "r", "d"), 0o755))
						names := []string{filepath.Join(src, "r", "a.bin"), filepath.Join(src, "r", "d", "b.bin"), filepath.Join(src, "r", "z.bin")}
						for i, n := range names {
							must(os.WriteFile(n, genContent('T', i, 500+i*100), 0o644))
						}
						files, _ := checkPathsReadable([]string{filepath.Join(src, "r")}, true)
						t := newTransfer(io.Discard, nil, false, nil)
						t.transferConfig.Protocol = kProtocolVersion4
						top := t.archiveSourceFiles(files)[0]
						mutate := func() {
							switch change {
							case "shrink":
								must(os.Truncate(names[which], 100))
							case "shrink-to-0":
								must(os.Truncate(names[which], 0))
							case "grow":
								f, _ := os.OpenFile(names[which], os.O_APPEND|os.O_WRONLY, 0)
								f.Write(bytes.Repeat([]byte("G"), 300))
								f.Close()
							}
						}
						if when == -1 {
							mutate()
						}
						rd, err := t.newArchiveReader(top)
						must(err)
						var stream []byte
						buf := make([]byte, rs)
						var rerr error
						nreads := 0
						for i := 0; i < 1<<20; i++ {
							if i == when {
								mutate()
							}
							n, e := rd.Read(buf)
							nreads++
							stream = append(stream, buf[:n]...)
							if e != nil {
								if e != io.EOF {
									rerr = e
								}
								break
							}
						}
						if when == 0 && change == "grow" {
							reads = nreads // a grown file is streamed in full: the number of reads of an undisturbed run
						} else if when == 0 {
							reads = (1800+700)/rs + 8 // beyond the end of any stream of this tree
							if rs >= 2508 {
								reads = 3
							}
						}
						rd.Close()
						r.Execs++
						r.Nontrivial++
						intact := func(dst string, alsoMutated bool) string {
							a, b := snapshot(filepath.Join(src, "r")), snapshot(filepath.Join(dst, "r"))
							for k, v := range a {
								if strings.HasSuffix(names[which], k) {
									continue
								}
								if b[k] != v {
									return fmt.Sprintf("entry %s was shifted or damaged: %s vs %s", k, v, b[k])
								}
							}
							return ""
						}
						if strings.HasPrefix(change, "shrink") {
							if rerr != nil && int64(len(stream)) >= rd.getSize() {
								// the product's read stage stops once it has the announced number of bytes
								r.Violate("c15:shrink-late", fmt.Sprintf("file #%d %s after read %d (read size %d): the error %q only shows after all %d announced bytes were produced; a reader that stops at the announced size never sees it", which, change, when, rs, rerr, rd.getSize()), nil)
							}
							if rerr == nil {
								// no error: only right when the file had been read completely before it shrank — the stream
								// is then complete and every entry in place
								dst := fresh()
								cerr := c15Consume(dst, top, stream, nil)
								bad := ""
								switch {
								case int64(len(stream)) != rd.getSize():
									bad = fmt.Sprintf("stream of %d bytes, %d announced", len(stream), rd.getSize())
								case cerr != nil:
									bad = fmt.Sprintf("consumer error %v", cerr)
								default:
									bad = intact(dst, false)
								}
								if bad != "" {
									moment := "between scan and read"
									if when > 0 {
										moment = "while the stream was being read"
									}
									r.Violate("c15:shrink-silent", fmt.Sprintf("file #%d %s %s (after read %d, read size %d): the producer reported no error (%s)", which, change, moment, when, rs, bad), nil)
								}
							}
						} else if rerr == nil && int64(len(stream)) != rd.getSize() {
							r.Violate("c15:grow-size", fmt.Sprintf("file #%d grew after read %d (read size %d): the stream has %d bytes, %d were announced", which, when, rs, len(stream), rd.getSize()), nil)
						} else if rerr != nil {
							r.Violate("c15:grow-error", fmt.Sprintf("file #%d grew after read %d (read size %d): %v", which, when, rs, rerr), nil)
						} else {
							// the entries after the grown file must still be in place and intact
							dst := fresh()
							if cerr := c15Consume(dst, top, stream, nil); cerr != nil {
								r.Violate("c15:grow-consume", fmt.Sprintf("file #%d grew after read %d (read size %d): consumer failed: %v", which, when, rs, cerr), nil)
							} else if d := intact(dst, false); d != "" {
								r.Violate("c15:grow-shift", fmt.Sprintf("file #%d grew after read %d (read size %d): %s", which, when, rs, d), nil)
							}
						}
						os.RemoveAll(src)
						if len(r.Violations) > 5 {
							return r
						}
					}
				}
			}
		}
	}
	return r
}

func init() {
	vs.Register(&vs.Check{
		ID:    "C15",
		Level: "exploration",
		Rule: "every tree shape with <= 4 entries over {directory, empty file, 1-byte file, 3-byte file} and depth <= 2 x producer read sizes {1,2,3,7,64,32768} x consumer segmentation {whole, every single cut, uniform sizes 1..8}; every pair of cuts on three core trees; a tree with files of several read buffers, unicode names and empty directories cut at and around every header/payload boundary; " +
			"a deep tree of 240-byte unicode names (entry headers above 1 KiB) with every single cut and 12 uniform write sizes; directories with 1025 and 4500 direct entries (top level and nested); a 300-entry tree (every third file empty) with descriptor counts taken after every read / write (GC off); each of three files shrinking, emptied or growing between scan and read and after every k-th read of the producer (every moment of the stream) x read sizes {7,64,32768} (thorough: also 1)",
		Assumptions: []string{"real file system in a scratch directory on tmpfs", "descriptor use is counted in /proc/self/fd with the garbage collector disabled so that finalizers cannot hide a leak"},
		QuickBudget: 100, ThoroughBudget: 600, DiedIsViolation: true,
		Jobs: func(tier string) []vs.Job {
			var jobs []vs.Job
			n := 12
			for s := 0; s < n; s++ {
				jobs = append(jobs, vs.MkJob(fmt.Sprintf("shapes %d/%d", s, n), c15Params{Part: "shapes", Shard: s, N: n}))
			}
			for s := 0; s < 4; s++ {
				jobs = append(jobs, vs.MkJob(fmt.Sprintf("pairs %d/4", s), c15Params{Part: "pairs", Shard: s, N: 4}))
			}
			jobs = append(jobs, vs.MkJob("big", c15Params{Part: "big"}), vs.MkJob("long names", c15Params{Part: "longnames"}), vs.MkJob("fds", c15Params{Part: "fds"}), vs.MkJob("fanout", c15Params{Part: "fanout"}), vs.MkJob("mutate", c15Params{Part: "mutate"}))
			return jobs
		},
		Run: c15Run,
	})
}
