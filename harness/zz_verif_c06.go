package trzsz

// C06 — a trigger starts exactly one transfer; look-alikes and replays start none
// (DESIGN.md §3 C06). (i) exhaustive enumeration of triggers generated from the grammar trz/tsz
// print, of their truncations and single-byte corruptions, and of trigger histories, against an
// independent reference detector; (ii) the real filter: handler starts counted per fed chunk.

import (
	"bytes"
	"fmt"
	"regexp"
	"strconv"
	"strings"
	"time"

	vs "github.com/trzsz/trzsz-go/zzverif/vsched"
	vtime "github.com/trzsz/trzsz-go/zzverif/vsched/vtime"
)

type c06Params struct {
	Part  string `json:"part"` // grammar | corrupt | history | world
	Shard int    `json:"shard"`
	N     int    `json:"n"`
}

// ---- reference detector (written from the documentation of the trigger, not from detectTrzsz) ----

var refTriggerRe = regexp.MustCompile(`^::TRZSZ:TRANSFER:([SRD]):(\d+)\.(\d+)\.(\d+)(?::(\d+))?(?::(\d+))?`)
var refTmuxLineRe = regexp.MustCompile(`(%output %\d+ |%extended-output %\d+ \d+ : ).*::TRZSZ:TRANSFER:`)

type refTrigger struct {
	mode    byte
	version [3]uint32
	id      string
	port    int
	win     bool
}

type refDetector struct {
	relay, tmux bool
	seen        map[string]int
}

func (d *refDetector) detect(out []byte, tunnel bool) *refTrigger {
	if len(out) < 24 {
		return nil
	}
	idx := bytes.LastIndex(out, []byte("::TRZSZ:TRANSFER:"))
	if idx < 0 {
		return nil
	}
	sub := out[idx:]
	m := refTriggerRe.FindSubmatch(sub)
	if m == nil {
		return nil
	}
	var t refTrigger
	t.mode = m[1][0]
	for i := 0; i < 3; i++ {
		v, err := strconv.ParseUint(string(m[2+i]), 10, 32)
		if err != nil {
			return nil
		}
		t.version[i] = uint32(v)
	}
	t.id = string(m[5])
	if d.relay && d.tmux && len(t.id) >= 13 && strings.HasSuffix(t.id, "00") {
		t.id = t.id[:len(t.id)-2] + "20" // a relay inside tmux re-tags the server's id
	}
	hasPort := len(m[6]) > 0
	if hasPort {
		if v, err := strconv.Atoi(string(m[6])); err == nil {
			t.port = v
		}
	}
	// tmux control mode output can only be used over a tunnel
	if refTmuxLineRe.Match(out) && !(tunnel && hasPort) {
		return nil
	}
	// scroll-back of a finished transfer: something conclusive follows the trigger
	if len(sub) > 40 {
		for _, w := range []string{"#CFG:", "Saved", "Cancelled", "Stopped", "Interrupted"} {
			if bytes.Contains(sub[40:], []byte(w)) {
				return nil
			}
		}
	}
	// redraws repeat tmux / Windows ids (and any long id that is not the plain 13-digit ...00 form)
	if len(t.id) > 6 && !(len(t.id) == 13 && strings.HasSuffix(t.id, "00")) {
		if _, ok := d.seen[t.id]; ok {
			return nil
		}
		if len(d.seen) > 100 {
			n := map[string]int{}
			for k, v := range d.seen {
				if v >= 50 {
					n[k] = v - 50
				}
			}
			d.seen = n
		}
		d.seen[t.id] = len(d.seen)
	}
	t.win = t.id == "1" || (len(t.id) == 13 && strings.HasSuffix(t.id, "10"))
	return &t
}

func sameTrigger(a *refTrigger, b *trzszTrigger) string {
	switch {
	case a == nil && b == nil:
		return ""
	case a == nil:
		return fmt.Sprintf("fires (mode %c id %q port %d) although the reference does not", b.mode, b.uniqueID, b.tunnelPort)
	case b == nil:
		return fmt.Sprintf("does not fire although the reference does (mode %c id %q port %d)", a.mode, a.id, a.port)
	}
	if a.mode != b.mode || a.id != b.uniqueID || a.port != b.tunnelPort || a.win != b.winServer || a.version != [3]uint32(*b.version) {
		return fmt.Sprintf("fires with mode %c version %v id %q port %d win %v, the trigger says mode %c version %v id %q port %d win %v", b.mode, *b.version, b.uniqueID, b.tunnelPort, b.winServer, a.mode, a.version, a.id, a.port, a.win)
	}
	return ""
}

// c06Check runs one input through fresh detectors of the three kinds and checks every clause.
func c06Check(r *vs.JobResult, in []byte, tunnel bool) {
	for _, mode := range [][2]bool{{false, false}, {true, false}, {true, true}} {
		relay, tmux := mode[0], mode[1]
		ref := &refDetector{relay: relay, tmux: tmux, seen: map[string]int{}}
		det := newTrzszDetector(relay, tmux)
		want := ref.detect(in, tunnel)
		out, got := det.detectTrzsz(append([]byte(nil), in...), tunnel)
		r.Execs++
		if want != nil {
			r.Nontrivial++
			if len(r.Samples) < 3 && r.Execs%1013 == 7 {
				r.Samples = append(r.Samples, fmt.Sprintf("detector(relay=%v tmux=%v, tunnel=%v) input %q -> fires mode %c id %q port %d", relay, tmux, tunnel, clipStr(string(in), 120), want.mode, want.id, want.port))
			}
		}
		if d := sameTrigger(want, got); d != "" {
			r.Violate(fmt.Sprintf("c06:diff:%v:%v:%s", relay, tmux, firstWords(d, 4)), fmt.Sprintf("detector(relay=%v tmux=%v) on %q tunnel=%v: %s", relay, tmux, clipStr(string(in), 200), tunnel, d), nil)
			return
		}
		if got == nil {
			if !bytes.Equal(out, in) && !(relay && tmux) {
				r.Violate("c06:altered", fmt.Sprintf("detector(relay=%v tmux=%v) did not fire on %q but altered the output to %q", relay, tmux, clipStr(string(in), 120), clipStr(string(out), 120)), nil)
			}
			continue
		}
		if !relay {
			// shown locally in a form a second wrapper further along will not react to
			second := newTrzszDetector(false, false)
			if _, again := second.detectTrzsz(append([]byte(nil), out...), tunnel); again != nil {
				r.Violate("c06:refire", fmt.Sprintf("the client shows %q, which a second wrapper would react to again", clipStr(string(out), 160)), nil)
			}
			if !bytes.Equal(bytes.ReplaceAll(out, []byte("TRZSZGO"), []byte("TRZSZ")), bytes.ReplaceAll(in, []byte("TRZSZGO"), []byte("TRZSZ"))) {
				r.Violate("c06:client-bytes", fmt.Sprintf("the client changed more than the marker: %q -> %q", clipStr(string(in), 120), clipStr(string(out), 120)), nil)
			}
		} else {
			// forwarded in a form the real client still recognises, marked as relayed
			client := newTrzszDetector(false, false)
			_, c := client.detectTrzsz(append([]byte(nil), out...), tunnel)
			if c == nil || c.mode != got.mode || c.uniqueID != got.uniqueID || c.tunnelPort != got.tunnelPort || *c.version != *got.version {
				// classify: did the two bytes of the relay mark push a conclusive word across the 40-byte look-ahead boundary?
				class := "other"
				oi := bytes.LastIndex(out, []byte("::TRZSZ:TRANSFER:"))
				ii := bytes.LastIndex(in, []byte("::TRZSZ:TRANSFER:"))
				if oi >= 0 && ii >= 0 && len(out[oi:]) > 40 {
					for _, w := range []string{"#CFG:", "Saved", "Cancelled", "Stopped", "Interrupted"} {
						if bytes.Contains(out[oi:][40:], []byte(w)) && (len(in[ii:]) <= 40 || !bytes.Contains(in[ii:][40:], []byte(w))) {
							class = "word-pushed-past-lookahead"
						}
					}
				}
				r.Violate("c06:relay-form:"+class, fmt.Sprintf("the relay forwards %q, which the client does not recognise as the same trigger", clipStr(string(out), 160)), nil)
			}
			if !bytes.Contains(out, []byte("#R")) {
				r.Violate("c06:relay-mark", fmt.Sprintf("the relay forwards %q without the relay mark", clipStr(string(out), 160)), nil)
			}
		}
	}
}

func c06Triggers() []string {
	var out []string
	for _, mode := range []string{"S", "R", "D"} {
		for _, ver := range []string{"0.0.0", "1.1.3", "1.1.8", "999.999.999", "4294967295.0.0", "4294967296.0.0"} {
			for _, id := range []string{"", ":1", ":123456", ":1234567", ":1234567890100", ":1234567890110", ":1234567890120", ":1234567890122", ":1234567890199", ":123456789012300"} {
				for _, port := range []string{"", ":0", ":65535", ":99999999999999999999"} {
					if id == "" && port != "" {
						continue
					}
					out = append(out, "::TRZSZ:TRANSFER:"+mode+":"+ver+id+port)
				}
			}
		}
	}
	return out
}

func c06Run(j vs.Job) *vs.JobResult {
	var p c06Params
	j.Decode(&p)
	r := &vs.JobResult{Outcomes: map[string]int64{}}
	defer func() {
		if e := recover(); e != nil {
			r.Violate("c06:panic", fmt.Sprintf("panic: %v", e), nil)
		}
	}()
	trigs := c06Triggers()
	prefixes := []string{"", "\x1b7\x07", "some noise before the line $ trz -d\r\n", "::TRZSZ:TRANSFER:S:1.1.8:7777777\r\n", "%output %1 ", "%extended-output %12 0 : "}
	sufWords := []string{"#CFG:", "Saved", "Cancelled", "Stopped", "Interrupted"}
	suffixes := []string{"", "\r\n"}
	for _, w := range sufWords {
		suffixes = append(suffixes, "\r\n"+w, "\r\n"+strings.Repeat(" ", 8)+w, "\r\n"+strings.Repeat(".", 20)+w, "\r\n"+strings.Repeat(".", 40)+w+" 3 files")
	}
	switch p.Part {
	case "grammar":
		k := 0
		for _, t := range trigs {
			for _, pre := range prefixes {
				for _, suf := range suffixes {
					for _, tunnel := range []bool{false, true} {
						if k++; k%p.N != p.Shard {
							continue
						}
						// suppression words exactly at, just before and just after offset 40 of the trigger
						c06Check(r, []byte(pre+t+suf), tunnel)
					}
				}
			}
			for _, w := range sufWords {
				for _, off := range []int{39, 40, 41} {
					if k++; k%p.N != p.Shard {
						continue
					}
					pad := off - len(t)
					if pad < 0 {
						continue
					}
					c06Check(r, []byte("\x1b7\x07"+t+strings.Repeat("\n", pad)+w), false)
				}
			}
		}
	case "corrupt":
		k := 0
		for ti, t := range trigs {
			if ti%3 != 0 {
				continue
			}
			full := "\x1b7\x07" + t + "\r\n"
			for cut := 1; cut < len(full); cut++ {
				if k++; k%p.N != p.Shard {
					continue
				}
				c06Check(r, []byte(full[:cut]), false)
			}
			for i := 0; i < len(full); i++ {
				for _, c := range []byte{'X', ':', '0', ' ', 0x00, full[i] ^ 0x20} {
					if k++; k%p.N != p.Shard {
						continue
					}
					b := []byte(full)
					b[i] = c
					c06Check(r, b, false)
				}
			}
		}
	case "history":
		// sequences of triggers through one detector: fresh / repeated ids of each style, and the pruning boundary
		ids := []string{"1234567890100", "1234567890120", "1234567890110", "7654321", "123456", "1"}
		var seqs [][]int
		var rec func(cur []int)
		rec = func(cur []int) {
			if len(cur) > 0 {
				seqs = append(seqs, append([]int(nil), cur...))
			}
			if len(cur) == 4 {
				return
			}
			for i := range ids {
				rec(append(cur, i))
			}
		}
		rec(nil)
		for si, seq := range seqs {
			if si%p.N != p.Shard {
				continue
			}
			for _, mode := range [][2]bool{{false, false}, {true, true}} {
				ref := &refDetector{relay: mode[0], tmux: mode[1], seen: map[string]int{}}
				det := newTrzszDetector(mode[0], mode[1])
				for step, i := range seq {
					in := []byte("\x1b7\x07::TRZSZ:TRANSFER:R:1.1.8:" + ids[i] + ":0\r\n")
					want := ref.detect(in, false)
					_, got := det.detectTrzsz(append([]byte(nil), in...), false)
					r.Execs++
					r.Nontrivial++
					if d := sameTrigger(want, got); d != "" {
						r.Violate("c06:history:"+firstWords(d, 4), fmt.Sprintf("history %v step %d (relay=%v): %s", seq, step, mode[0], d), nil)
						break
					}
				}
			}
		}
		if p.Shard == 0 {
			// the 101-entry pruning boundary: n distinct ids, then a repeat of the 1st, 51st, 52nd and last
			for _, n := range []int{100, 101, 102, 150, 203} {
				for _, again := range []int{0, 50, 51, n - 1} {
					ref := &refDetector{seen: map[string]int{}}
					det := newTrzszDetector(false, false)
					feed := func(id int) (*refTrigger, *trzszTrigger) {
						in := []byte(fmt.Sprintf("::TRZSZ:TRANSFER:S:1.1.8:%013d:0\r\n", 1000000000120+id*1000))
						_, g := det.detectTrzsz(append([]byte(nil), in...), false)
						return ref.detect(in, false), g
					}
					for i := 0; i < n; i++ {
						w, g := feed(i)
						r.Execs++
						if d := sameTrigger(w, g); d != "" {
							r.Violate("c06:prune-fill", fmt.Sprintf("filling %d ids, id %d: %s", n, i, d), nil)
						}
					}
					w, g := feed(again)
					r.Execs++
					if d := sameTrigger(w, g); d != "" {
						r.Violate("c06:prune", fmt.Sprintf("after %d distinct ids, repeating id #%d: %s", n, again, d), nil)
					}
				}
			}
		}
	case "world":
		return c06World(j, r)
	}
	r.Outcomes[p.Part] = r.Execs
	return r
}

// c06World feeds chunks to the real filter and counts how many handshakes (#ACT: lines) each starts.
func c06World(j vs.Job, r *vs.JobResult) *vs.JobResult {
	type chunk struct {
		text string
		acts int // expected number of ACT lines this chunk causes
	}
	trig := func(id string) string { return "\x1b7\x07::TRZSZ:TRANSFER:S:1.1.8:" + id + ":0\r\n" }
	scenarios := [][]chunk{
		{{trig("1234567890100"), 1}},
		{{"ls output\r\n$ tsz file\r\n" + trig("1234567890100"), 1}},
		{{trig("1234567890120"), 1}, {trig("1234567890120"), 0}, {trig("1234567890220"), 1}},
		{{trig("1234567890110"), 1}, {trig("1234567890110"), 0}},
		{{trig("1234567890100"), 1}, {trig("1234567890100"), 1}},
		{{trig("1234567890100")[:15] + strings.Repeat(" ", 12), 0}, {trig("1234567890100")[15:] + strings.Repeat(" ", 12), 0}}, // cut inside the marker
		{{trig("1234567890100") + strings.Repeat(" ", 30) + "Saved 1 file/directory\r\n- a.txt\r\n", 0}},
		{{trig("1234567890100") + "#CFG:eJyrVspJzEtXslJQKqhU0lFQSipNK86sSgUKGBqYWJgaGxkYGBvoKJVkluSmAgUNDXSUCoryS/KT83OUrBRMagG+QxRy\r\n" + strings.Repeat(".", 10), 0}},
		{{"::TRZSZ:TRANSFER:X:1.1.8:1234567890100:0\r\n..............", 0}},
		{{"::TRZSZ:TRANSFER:S:1.1:1234567890100:0\r\n................", 0}},
		{{trig("1234567890100") + trig("2234567890100"), 1}},
	}
	for si, sc := range scenarios {
		var acts []int
		viol := ""
		s := vs.Run(vs.Config{MaxSteps: 400000}, nil, nil, func() {
			keys, term := vs.NewPipe("keys"), vs.NewSink("term")
			c2s, s2c := vs.NewPipe("c2s"), vs.NewPipe("s2c")
			filter := NewTrzszFilter(keys, term, c2s, s2c, TrzszOptions{TerminalColumns: 80})
			filter.SetDefaultDownloadPath(scratchDir())
			for _, c := range sc {
				before := bytes.Count(c2s.Written, []byte("#ACT:"))
				s2c.Write([]byte(c.text))
				// the (scripted) server never answers: the handler gives up after its timeout and the session is free again
				vs.WaitSettled(func() bool { return false }, 0)
				vtime.Sleep(time.Second)
				acts = append(acts, bytes.Count(c2s.Written, []byte("#ACT:"))-before)
				if filter.IsTransferringFiles() {
					viol = "the filter is still in a transfer after the handler timed out"
				}
			}
		})
		r.Execs++
		r.Nontrivial++
		r.Steps += int64(s.Steps)
		if len(s.Crash) > 0 {
			viol = "panic: " + s.CrashString()
		}
		for i, c := range sc {
			if viol == "" && (i >= len(acts) || acts[i] != c.acts) {
				got := -1
				if i < len(acts) {
					got = acts[i]
				}
				viol = fmt.Sprintf("chunk %d %q started %d transfers, expected %d", i, clipStr(c.text, 80), got, c.acts)
			}
		}
		if viol != "" {
			r.Violate(fmt.Sprintf("c06:world:%d", si), fmt.Sprintf("scenario %d: %s", si, viol), nil)
		}
	}
	return r
}

func init() {
	vs.Register(&vs.Check{
		ID:    "C06",
		Level: "exploration",
		Rule: "(i) triggers from the grammar: mode {S,R,D} x version {0.0.0,1.1.3,1.1.8,999.999.999,2^32-1,2^32} x id {absent,1,6,7 digits,13 digits ending 00/10/20/22/99,15 digits} x port {absent,0,65535,overflow} x prefix {none, ESC7 BEL, noise, an earlier trigger, tmux control-mode framing x2} x suffix {none, CRLF, each of the five suppression words at offsets <40 / >=40 and exactly 39/40/41} x tunnel, " +
			"every truncation and six single-byte corruptions at every position of a third of them, every history of <= 4 triggers over six id styles, the pruning boundary; each through client, relay and relay+tmux detectors against an independent reference; (ii) 11 scenarios through the real filter counting handshakes per fed chunk",
		Assumptions: []string{"the reference detector is a 60-line re-statement of the documented trigger rules written for this check"},
		QuickBudget: 100, ThoroughBudget: 600, DiedIsViolation: true,
		Jobs: func(tier string) []vs.Job {
			var jobs []vs.Job
			for _, part := range []string{"grammar", "corrupt", "history"} {
				n := 5
				for s := 0; s < n; s++ {
					jobs = append(jobs, vs.MkJob(fmt.Sprintf("%s %d/%d", part, s, n), c06Params{Part: part, Shard: s, N: n}))
				}
			}
			jobs = append(jobs, vs.MkJob("world", c06Params{Part: "world"}))
			return jobs
		},
		Run: c06Run,
	})
}
