package trzsz

// C13 — a relay never loses, duplicates or reorders bytes, under any scheduling.
// Focused harness around one real TrzszRelay (NewTrzszRelay): scripted, causally gated client and
// server streams, recording sinks; all schedules of the relay's goroutines up to a preemption
// bound are explored (DESIGN.md §3 C13).

import (
	"bytes"
	"encoding/json"
	"fmt"
	"strings"
	"time"

	vs "github.com/trzsz/trzsz-go/zzverif/vsched"
)

type c13Params struct {
	Outcome string `json:"outcome"` // confirm | cancel | badact | badcfg
	CCut    string `json:"ccut"`    // client chunking: A straddle, B exact, C inside, D inside+straddle
	SCut    string `json:"scut"`    // server chunking
	Late    bool   `json:"late"`    // c1/s1 arrive only after the handshake answer reached the other side
	Twice   bool   `json:"twice"`   // a second transfer through the same relay after #EXIT:
	// WinFirst (with Twice): the client of the first transfer announces the Windows line ending "!\n" (a client
	// affected by a Windows console): the server frames its CFG with it and the relay reads and forwards it that way;
	// the second transfer is an ordinary one
	WinFirst bool `json:"winfirst,omitempty"`
	Bound    int  `json:"bound"` // preemption bound
	Shard    int  `json:"shard"`
	NShards  int  `json:"nshards"`
}

type c13Stream struct {
	chunks [][]byte
	gates  []func() bool
}

func (s *c13Stream) add(b string, gate func() bool) {
	s.chunks = append(s.chunks, []byte(b))
	s.gates = append(s.gates, gate)
}

func c13Cut(line, after string, mode string) []string {
	h := len(line) / 2
	switch mode {
	case "A": // the chunk carrying the line also carries bytes that follow it
		return []string{line + after}
	case "B": // cut exactly at the end of the line
		return []string{line, after}
	case "C": // cut inside the line, and exactly after it
		return []string{line[:h], line[h:], after}
	case "D": // cut inside the line, second part straddles into what follows
		return []string{line[:h], line[h:] + after}
	case "E": // cut just after: the newline travels with the following bytes
		return []string{line[:len(line)-1], line[len(line)-1:] + after}
	}
	panic("bad cut mode " + mode)
}

type c13World struct {
	p                   c13Params
	clientIn, serverOut *vs.Pipe
	clientOut, serverIn *vs.Sink
	cAll, sAll          []byte // full scripted streams
	cLineEnd, sLineEnd  []int  // offsets just after each handshake line (per transfer)
	cLineBeg, sTrigEnd  []int  // offset where the ACT line's chunk begins / where the trigger chunk ends
	cBounds             []int  // chunk boundaries of the client stream
	sChunks             [][]byte
	wantACT, wantCFG    []string
	relay               *TrzszRelay
}

var c13EncCache = map[string]string{}

func c13Enc(s string) string {
	if v, ok := c13EncCache[s]; ok {
		return v
	}
	v := encodeString(s)
	c13EncCache[s] = v
	return v
}

func c13Build(p c13Params) *c13World {
	w := &c13World{p: p}
	w.clientIn, w.serverOut = vs.NewPipe("clientIn"), vs.NewPipe("serverOut")
	w.clientOut, w.serverIn = vs.NewSink("clientOut"), vs.NewSink("serverIn")
	var cs, ss c13Stream
	rounds := 1
	if p.Twice {
		rounds = 2
	}
	cs.add("k1", nil)
	ss.add("pre\r\n", nil)
	for round := 0; round < rounds; round++ {
		id := fmt.Sprintf("12345678%d0100", round+1)
		trigger := "\x1b7\x07::TRZSZ:TRANSFER:S:1.1.8:" + id + ":0\r\n"
		sawTrigger := w.clientOut.Has(id[:len(id)-2])
		nl := "\n" // the line ending this round's client announces; the server frames its answer with it
		if p.WinFirst && round == 0 {
			nl = "!\n"
		}
		act := transferAction{Lang: "go", Version: "1.1.8", Confirm: p.Outcome != "cancel", Newline: nl, Protocol: 4 + round, SupportBinary: true, SupportDirectory: true}
		actJSON, _ := json.Marshal(&act)
		actLine := "#ACT:" + c13Enc(string(actJSON)) + "\n"
		if p.Outcome == "badact" {
			actLine = "#ACT:!!!not-base64!!!\n"
		}
		// what the relay must forward: binary off (no tunnel), protocol clamped
		fwd := act
		fwd.SupportBinary = false
		if fwd.Protocol > kProtocolVersion {
			fwd.Protocol = kProtocolVersion
		}
		fwdJSON, _ := json.Marshal(&fwd)
		w.wantACT = append(w.wantACT, "#ACT:"+c13Enc(string(fwdJSON))+"\n")

		cfgSrc := `{"lang":"go","bufsize":10485760,"timeout":20,"protocol":4}`
		cfgLine := "#CFG:" + c13Enc(cfgSrc) + nl
		if p.Outcome == "badcfg" {
			cfgLine = "#CFG:!!!not-base64!!!" + nl
		}
		cfg := &transferConfig{Timeout: 20, Newline: "\n", MaxBufSize: 10 * 1024 * 1024}
		_ = json.Unmarshal([]byte(cfgSrc), cfg)
		cfgJSON, _ := json.Marshal(cfg)
		w.wantCFG = append(w.wantCFG, "#CFG:"+c13Enc(string(cfgJSON))+nl)

		sawACT := func(n int) func() bool {
			return func() bool {
				return bytes.Count(w.serverIn.Written, []byte("#ACT:"))+bytes.Count(w.serverIn.Written, []byte("#FAIL:")) >= n
			}
		}(round + 1)
		sawAnswer := func(n int) func() bool {
			return func() bool {
				return bytes.Count(w.clientOut.Written, []byte("#CFG:"))+bytes.Count(w.clientOut.Written, []byte("#FAIL:"))+bytes.Count(w.clientOut.Written, []byte("Cancelled")) >= n
			}
		}(round + 1)

		// server: trigger (gated on the previous bytes having passed), then CFG (after ACT arrived), then s1, s2
		trigGate := w.serverIn.Has("k1")
		if round > 0 {
			trigGate = w.clientOut.Has("#EXIT:")
		}
		ss.add(trigger, trigGate)
		w.sTrigEnd = append(w.sTrigEnd, ss.total())
		s1, s2 := fmt.Sprintf("s1<%d>", round), fmt.Sprintf("s2<%d>", round)
		switch p.Outcome {
		case "cancel":
			// the server prints a message and goes back to the shell
			for _, c := range []string{"Cancelled\r\n" + s1, s2} {
				ss.add(c, sawACT)
			}
			w.sLineEnd = append(w.sLineEnd, w.sTrigEnd[round])
		default:
			parts := c13Cut(cfgLine, s1, p.SCut)
			lineEnd := ss.total() + len(cfgLine)
			for i, c := range parts {
				g := sawACT
				if p.Late && i == len(parts)-1 && (p.SCut == "B" || p.SCut == "C") {
					g = sawAnswer
				}
				ss.add(c, g)
			}
			ss.add(s2, nil)
			if p.Outcome == "badact" {
				lineEnd = w.sTrigEnd[round] // the handshake dies before it reads anything from the server
			}
			w.sLineEnd = append(w.sLineEnd, lineEnd)
		}
		// client: ACT (after it saw the trigger), then c1, c2
		c1, c2 := fmt.Sprintf("c1<%d>", round), fmt.Sprintf("c2<%d>", round)
		w.cLineBeg = append(w.cLineBeg, cs.total())
		parts := c13Cut(actLine, c1, p.CCut)
		w.cLineEnd = append(w.cLineEnd, cs.total()+len(actLine))
		for i, c := range parts {
			g := sawTrigger
			if p.Late && i == len(parts)-1 && (p.CCut == "B" || p.CCut == "C") {
				g = sawAnswer
			}
			cs.add(c, g)
		}
		cs.add(c2, nil)
		if p.Twice && round == 0 {
			// end of the first transfer: the server says EXIT, which also returns the relay to standby
			exit := "#EXIT:" + c13Enc("Saved x") + "\n"
			ss.add(exit, w.serverIn.Has(c2))
			cs.add("k2", w.clientOut.Has("#EXIT:"))
		}
	}
	for i := range cs.chunks {
		w.clientIn.InjectGated(cs.chunks[i], cs.gates[i])
		w.cBounds = append(w.cBounds, len(w.cAll))
		w.cAll = append(w.cAll, cs.chunks[i]...)
	}
	for i := range ss.chunks {
		w.serverOut.InjectGated(ss.chunks[i], ss.gates[i])
		w.sAll = append(w.sAll, ss.chunks[i]...)
	}
	w.sChunks = ss.chunks
	return w
}

func (s *c13Stream) total() int {
	n := 0
	for _, c := range s.chunks {
		n += len(c)
	}
	return n
}

// c13Expect computes the set of acceptable final contents of both sinks.
// Client side (what the server receives): for every transfer, C[:i] ++ <one relay line> ++ C[j:],
// where j is just after the consumed ACT line and i is a chunk boundary not after the chunk that
// starts the ACT line (bytes that arrive while handshaking in front of the marker are junk by design).
func (w *c13World) check() (outcome, violation string) {
	si, co := string(w.serverIn.Written), string(w.clientOut.Written)
	outcome = fmt.Sprintf("serverIn=%q clientOut=%q", si, co)
	lineType := func(confirmLine string, ok bool) string {
		if ok {
			return confirmLine
		}
		return ""
	}
	// --- server side of the relay (bytes from the client) ---
	if v := c13Match(si, string(w.cAll), w.cLineBeg, w.cLineEnd, w.cBounds, func(round int) (string, string) {
		switch w.p.Outcome {
		case "badact":
			return "#FAIL:", ""
		case "badcfg":
			return "#ACT:", "#FAIL:" // rewritten ACT, then the failure notice
		}
		return lineType(w.wantACT[round], true), ""
	}); v != "" {
		return outcome, "bytes towards the server: " + v
	}
	// --- client side of the relay (bytes from the server) ---
	// reference for the standby path: the real detector run sequentially over the same chunks
	det := newTrzszDetector(true, true)
	var want strings.Builder
	pos := 0
	round := 0
	handshaking := false
	for _, c := range w.sChunks {
		end := pos + len(c)
		if handshaking {
			// buffered: consumed up to the end of the CFG line (if any), rest forwarded raw
			le := w.sLineEnd[round]
			if end <= le && w.p.Outcome != "cancel" {
				pos = end
				continue
			}
			start := pos
			if le > start {
				start = le
			}
			want.WriteString(string(w.sAll[start:end]))
			pos = end
			if bytes.Contains(c, []byte("#EXIT:")) {
				handshaking = false
				round++
			}
			continue
		}
		out, trig := det.detectTrzsz(append([]byte(nil), c...), false)
		want.Write(out)
		pos = end
		if trig != nil {
			handshaking = true
			want.WriteString("\x00ANSWER\x00")
		}
	}
	wantCO := want.String()
	// split at the answer markers and match
	segs := strings.Split(wantCO, "\x00ANSWER\x00")
	rest := co
	for i, seg := range segs {
		if i > 0 {
			// one relay-produced line goes here (none for cancel)
			var line string
			switch w.p.Outcome {
			case "cancel":
				line = ""
			case "confirm":
				line = w.wantCFG[i-1]
				if !strings.HasPrefix(rest, line) {
					return outcome, fmt.Sprintf("bytes towards the client: expected the rewritten CFG line at offset %d, got %q", len(co)-len(rest), clipStr(rest, 80))
				}
			default:
				if !strings.HasPrefix(rest, "#FAIL:") {
					return outcome, fmt.Sprintf("bytes towards the client: expected a #FAIL: line at offset %d, got %q", len(co)-len(rest), clipStr(rest, 80))
				}
				nl := strings.IndexByte(rest, '\n')
				if nl < 0 {
					return outcome, "bytes towards the client: unterminated #FAIL: line"
				}
				line = rest[:nl+1]
			}
			rest = rest[len(line):]
		}
		if !strings.HasPrefix(rest, seg) {
			return outcome, fmt.Sprintf("bytes towards the client: expected %q at offset %d, got %q (lost, duplicated or reordered)", clipStr(seg, 80), len(co)-len(rest), clipStr(rest, 80))
		}
		rest = rest[len(seg):]
	}
	if rest != "" {
		return outcome, fmt.Sprintf("bytes towards the client: %d unexpected trailing bytes %q", len(rest), clipStr(rest, 80))
	}
	// --- end state ---
	if b := w.relay.stdinBuffer.popBuffer(); b != nil {
		return outcome, fmt.Sprintf("client bytes stranded in the parking queue: %q", clipStr(string(b), 60))
	}
	if b := w.relay.stdoutBuffer.popBuffer(); b != nil {
		return outcome, fmt.Sprintf("server bytes stranded in the parking queue: %q", clipStr(string(b), 60))
	}
	wantStatus := int32(kRelayStandBy)
	if w.p.Outcome == "confirm" {
		wantStatus = kRelayTransferring
	}
	if st := w.relay.relayStatus.Load(); st != wantStatus {
		return outcome, fmt.Sprintf("relay status %d at the end, expected %d", st, wantStatus)
	}
	return outcome, ""
}

func clipStr(s string, n int) string {
	if len(s) > n {
		return s[:n] + "…"
	}
	return s
}

// c13Match checks out == C[:i0] ++ L0 ++ C[j0:i1] ++ L1 ++ C[j1:] with the allowed choices of i.
func c13Match(out, all string, lineBeg, lineEnd, bounds []int, want func(round int) (string, string)) string {
	var try func(round int, outPos, cPos int) string
	try = func(round int, outPos, cPos int) string {
		if round == len(lineBeg) {
			if out[outPos:] == all[cPos:] {
				return ""
			}
			return fmt.Sprintf("after the last handshake expected %q, got %q", clipStr(all[cPos:], 80), clipStr(out[outPos:], 80))
		}
		first := ""
		for _, i := range bounds {
			if i < cPos || i > lineBeg[round] {
				continue
			}
			pre := all[cPos:i]
			if !strings.HasPrefix(out[outPos:], pre) {
				continue
			}
			p := outPos + len(pre)
			l1, l2 := want(round)
			ok := true
			for _, l := range []string{l1, l2} {
				if l == "" {
					continue
				}
				if strings.HasSuffix(l, "\n") { // exact line
					if !strings.HasPrefix(out[p:], l) {
						ok = false
						first = fmt.Sprintf("expected the relay's line %q at offset %d, got %q", clipStr(l, 40), p, clipStr(out[p:], 80))
						break
					}
					p += len(l)
				} else { // any single line of that type
					nl := strings.IndexByte(out[p:], '\n')
					if !strings.HasPrefix(out[p:], l) || nl < 0 {
						ok = false
						first = fmt.Sprintf("expected a %s line at offset %d, got %q", l, p, clipStr(out[p:], 80))
						break
					}
					p += nl + 1
				}
			}
			if !ok {
				continue
			}
			if v := try(round+1, p, lineEnd[round]); v == "" {
				return ""
			} else {
				first = v
			}
		}
		if first == "" {
			first = fmt.Sprintf("no acceptable placement of handshake %d: output %q", round, clipStr(out[outPos:], 120))
		}
		return first
	}
	return try(0, 0, 0)
}

func c13Exec(p c13Params) vs.ExecFn {
	return func(prefix, prefixN []int, trace bool) *vs.ExecResult {
		var w *c13World
		outcome, violation := "", ""
		s := vs.Run(vs.Config{MaxSteps: 20000, Trace: trace}, prefix, prefixN, func() {
			w = c13Build(p)
			w.relay = NewTrzszRelay(w.clientIn, w.clientOut, w.serverIn, w.serverOut, TrzszOptions{})
			vs.WaitQuiescent()
			outcome, violation = w.check()
		})
		res := &vs.ExecResult{Sched: s, Outcome: outcome, Violation: violation}
		switch {
		case len(s.Crash) > 0:
			res.Violation = "panic in a relay goroutine: " + s.CrashString()
		case s.Horizon:
			res.Violation = "step horizon reached (livelock?)"
		case s.Deadlock:
			res.Violation = "deadlock"
		}
		if res.Violation != "" {
			res.Signature = "c13:" + p.Outcome + ":" + firstWords(res.Violation, 6)
		}
		return res
	}
}

func firstWords(s string, n int) string {
	f := strings.Fields(s)
	if len(f) > n {
		f = f[:n]
	}
	return strings.Join(f, " ")
}

func c13Run(j vs.Job) *vs.JobResult {
	var p c13Params
	j.Decode(&p)
	r := &vs.JobResult{}
	exec := c13Exec(p)
	if j.Replay != nil {
		x := exec(j.Replay.Choices, nil, true)
		r.Notes = append(r.Notes, x.Sched.Trace...)
		r.Notes = append(r.Notes, "outcome: "+x.Outcome)
		if x.Violation != "" {
			r.Violate(x.Signature, x.Violation, nil)
		}
		return r
	}
	if p.Shard == 0 {
		n, err := vs.DeterminismCheck(exec)
		r.Replayed += int64(n)
		if err != "" {
			r.ToolErr = err
			return r
		}
	}
	st := vs.NewStats()
	e := &vs.Explorer{Exec: exec, Budget: vs.Budget{Total: p.Bound, FreeSwitch: true}, Shard: p.Shard, NShards: p.NShards, St: st}
	if j.Deadline > 0 {
		e.Deadline = time.Unix(j.Deadline, 0)
	}
	e.Explore()
	r.AddStats(st)
	r.Nontrivial = int64(len(st.Outcomes))
	return r
}

func init() {
	vs.Register(&vs.Check{
		ID:    "C13",
		Level: "model_checking",
		Rule: "stateless DFS over all schedules of the real relay's goroutines (2 pumps, handshake worker, writer goroutines) with at most B preemptions " +
			"(context switches at blocking points are free), for every scenario = handshake outcome x client/server chunking of the ACT/CFG lines x early/late arrival x one or two transfers; " +
			"oracle: both sinks equal the reference (prefix ++ relay line ++ every byte after the consumed line, in order), parking queues empty, status as expected",
		Assumptions: []string{
			"scheduling points are the package's channel, mutex, atomic, WaitGroup and stream operations (rewritten by the overlay); plain shared fields outside the R10 list are covered only by the separate -race pass",
			"bytes that arrive while handshaking in front of the #ACT:/#CFG: marker of the consumed line are junk by design and may be dropped",
			"outside tmux (one client-side sink)",
		},
		TraceNote:   "explored directly on the implementation (no separate model); the number counts executions replayed twice from recorded choice lists for the determinism guard plus 5x replays of violations",
		QuickBudget: 100, ThoroughBudget: 1500,
		Jobs: func(tier string) []vs.Job {
			var jobs []vs.Job
			add := func(p c13Params, shards int) {
				for s := 0; s < shards; s++ {
					p.Shard, p.NShards = s, shards
					jobs = append(jobs, vs.MkJob(fmt.Sprintf("%s c%s s%s late=%v twice=%v b%d %d/%d", p.Outcome, p.CCut, p.SCut, p.Late, p.Twice, p.Bound, s, shards)+map[bool]string{true: " winfirst", false: ""}[p.WinFirst], p))
				}
			}
			if tier == "quick" {
				// largest first
				add(c13Params{Outcome: "badact", CCut: "A", SCut: "A", Bound: 1}, 12)
				add(c13Params{Outcome: "confirm", CCut: "B", SCut: "B", Late: true, Bound: 1}, 8)
				add(c13Params{Outcome: "badcfg", CCut: "A", SCut: "A", Bound: 1}, 8)
				add(c13Params{Outcome: "confirm", CCut: "D", SCut: "C", Bound: 1}, 8)
				add(c13Params{Outcome: "confirm", CCut: "E", SCut: "E", Bound: 1}, 8)
				add(c13Params{Outcome: "confirm", CCut: "A", SCut: "A", Bound: 1}, 8)
				add(c13Params{Outcome: "confirm", CCut: "A", SCut: "B", Twice: true, Bound: 0}, 6)
				add(c13Params{Outcome: "confirm", CCut: "A", SCut: "A", Twice: true, WinFirst: true, Bound: 0}, 2)
				add(c13Params{Outcome: "confirm", CCut: "B", SCut: "B", Twice: true, WinFirst: true, Bound: 0}, 2)
				add(c13Params{Outcome: "cancel", CCut: "A", SCut: "A", Bound: 1}, 4)
				add(c13Params{Outcome: "cancel", CCut: "B", SCut: "B", Late: true, Bound: 1}, 4)
				return jobs
			}
			for _, o := range []string{"confirm", "cancel", "badact", "badcfg"} {
				for _, cc := range []string{"A", "B", "C", "D", "E"} {
					for _, sc := range []string{"A", "B", "C", "D", "E"} {
						for _, late := range []bool{false, true} {
							if late && !(cc == "B" || cc == "C" || sc == "B" || sc == "C") {
								continue
							}
							add(c13Params{Outcome: o, CCut: cc, SCut: sc, Late: late, Bound: 1}, 2)
						}
					}
				}
				add(c13Params{Outcome: o, CCut: "A", SCut: "A", Bound: 2}, 64)
				add(c13Params{Outcome: o, CCut: "B", SCut: "B", Late: true, Bound: 2}, 64)
				add(c13Params{Outcome: o, CCut: "A", SCut: "B", Twice: true, Bound: 1}, 16)
			}
			return jobs
		},
		Run: c13Run,
	})
}
