package trzsz

import (
	"bytes"
	"encoding/json"
	"fmt"
	"os"
	"runtime"
	"strings"
	"time"

	vs "github.com/trzsz/trzsz-go/zzverif/vsched"
)

var c12ScannerNames = []string{"detectTrzsz", "detectZmodem", "detectOSC52", "detectDragFiles", "stripTmuxStatusLine", "readLineOnWindows", "escapeTable", "transformPromptInput", "drag-mac-win", "readLine", "archiveHeader"}

// token alphabets: fragments that steer each scanner into its branches
var c12Tokens = map[string][]string{
	"detectTrzsz":          {"::TRZSZ:TRANSFER:", "S:", "R:", "D:", "1.1.8", "999.999.999", "4294967296.0.0", ":1234567890100", ":1", ":123456", ":0", ":65535", "\r\n", "%output %1 ", "%extended-output %1 0 : ", "#CFG:", "Saved", strings.Repeat("x", 41), ":", ".", "\x1b7\x07"},
	"detectZmodem":         {"**\x18B0", "0", "1", "8", "0123456789ab", "0123456789a", "\x18\x18\x18\x18\x18", "cannot open ", "x", "*"},
	"detectOSC52":          {"\x1b]52;", "c;", "p;", "x;", "c", ";", "QUJD", "\a", "\x1b", "\x1b\\", strings.Repeat("A", 100001), "!", ""},
	"detectDragFiles":      {"/", "'/", "' ", " ", "tmp", "/tmp", "/no/such", "\\ ", "\\", "'", "\x1b[200~", "\x1b[201~", "\x1b[20", "a", "\"", "/tmp "},
	"stripTmuxStatusLine":  {"\x1bP=", "\x1b\\", "\x1b", "P=", "x", "#SUCC:1", "\\", ""},
	"readLineOnWindows":    {"#", "A", "8", "!", "\n", "\r", "\x1b[", "25;119H", "H", "K", "m", "\x1b", "\x03", "[", "1", ";", " ", "="},
	"escapeTable":          {"[", "]", "\"", "\\u00ee", "\u00ee", "1", ",", "a", "null", "{", "}", ":", "\\u", "\\ud800"},
	"transformPromptInput": {"send -t %1 ", "send -lt %1 ", "0x3", "0xd", "0x", "0xzz", "0x7fffffff", ";", "\r", "\x1b[", "A", "B", "Z", "q", "\x03", "j", "\t", " "},
	"readLine":             {"\n", "\r", "\r\n", "#", "A", ":", "\x03", "#SUCC:", "x", "\n\n", " "},
	"drag-mac-win":         {"/", "/Users", "\\ ", " ", "C:\\", "C:\\Windows", "\"", "/c/", "/cygdrive/c/", "x", "\\", "'", ":", "\x1b[200~"},
}

func c12Scan(name string, in []byte) {
	switch name {
	case "detectTrzsz":
		for _, mode := range [][2]bool{{false, false}, {true, false}, {true, true}} {
			d := newTrzszDetector(mode[0], mode[1])
			for _, tunnel := range []bool{false, true} {
				out, trig := d.detectTrzsz(append([]byte(nil), in...), tunnel)
				_ = out
				_ = trig
			}
		}
	case "detectZmodem":
		detectZmodem(in)
	case "detectOSC52":
		f := &TrzszFilter{}
		// feed as one read and as two reads
		f.detectOSC52(append([]byte(nil), in...))
		f2 := &TrzszFilter{}
		h := len(in) / 2
		f2.detectOSC52(append([]byte(nil), in[:h]...))
		f2.detectOSC52(append([]byte(nil), in[h:]...))
	case "detectDragFiles":
		detectDragFiles(append([]byte(nil), in...))
	case "drag-mac-win":
		detectDragFilesOnMacOS(append([]byte(nil), in...))
		detectDragFilesOnWindows(append([]byte(nil), in...))
	case "stripTmuxStatusLine":
		t := &trzszTransfer{}
		t.stripTmuxStatusLine(append([]byte(nil), in...))
	case "readLine":
		// the line reader behind every recvLine: strict and junk-tolerant, whole and in two chunks, several lines in a row
		for _, junk := range []bool{true, false} {
			for _, two := range []bool{false, true} {
				b := newTrzszBuffer()
				if two {
					h := len(in) / 2
					if h > 0 {
						b.addBuffer(append([]byte(nil), in[:h]...))
					}
					if len(in) > h {
						b.addBuffer(append([]byte(nil), in[h:]...))
					}
				} else if len(in) > 0 {
					b.addBuffer(append([]byte(nil), in...))
				}
				for i := 0; i < 4; i++ {
					fired := make(chan time.Time, 1)
					fired <- time.Time{}
					if _, err := b.readLine(junk, fired); err != nil {
						break
					}
				}
			}
		}
	case "readLineOnWindows":
		b := newTrzszBuffer()
		b.addBuffer(append([]byte(nil), in...))
		fired := make(chan time.Time, 1)
		fired <- time.Time{}
		b.readLineOnWindows(fired)
	case "escapeTable":
		var t escapeTable
		_ = json.Unmarshal(in, &t)
		var cfg transferConfig
		_ = json.Unmarshal([]byte(`{"escape_chars":`+string(in)+`}`), &cfg)
	case "transformPromptInput":
		_, pw := vs.IOPipe() // buffered: nothing has to drain it
		f := &TrzszFilter{}
		f.transformPromptInput(pw, append([]byte(nil), in...))
		pw.Close()
	}
}

// c12ArchiveHeaders: the entry headers of an archive stream are peer input too (they travel inside the
// DATA payloads of a protocol-4 directory transfer, out of reach of the line-level man in the middle):
// every member of the header record x the JSON boundary values (and absent), followed by 0, 5 or 40
// payload bytes and a well-formed next entry, written to the real archive writer whole and with every
// single cut near the header's end.
func c12ArchiveHeaders(j vs.Job) *vs.JobResult {
	r := &vs.JobResult{Outcomes: map[string]int64{}}
	members := []string{"path_id", "path_name", "is_dir", "archive", "size", "perm"}
	base := map[string]string{"path_id": "0", "path_name": `["r","a.bin"]`, "is_dir": "false", "archive": "false", "size": "5", "perm": "420"}
	vals := append(append([]string{}, c12JSONVals...), "9223372036854775807", "-2", "5", `["r"]`, `["r","sub","b.bin"]`, `["r",""]`, "ABSENT")
	render := func(m map[string]string) string {
		var parts []string
		for _, k := range members {
			if v, ok := m[k]; ok {
				parts = append(parts, fmt.Sprintf("%q:%s", k, v))
			}
		}
		return "{" + strings.Join(parts, ",") + "}"
	}
	next := encodeString(`{"path_id":0,"path_name":["r","z.bin"],"is_dir":false,"archive":false,"size":3,"perm":420}`) + "\nzzz"
	perm := uint32(0o755)
	for _, mem := range members {
		for _, v := range vals {
			m := map[string]string{}
			for k, x := range base {
				m[k] = x
			}
			if v == "ABSENT" {
				delete(m, mem)
			} else {
				m[mem] = v
			}
			hdr := encodeString(render(m)) + "\n"
			for _, payload := range []string{"", "!!!!\n", strings.Repeat("p", 40)} {
				stream := []byte(hdr + payload + next)
				cuts := [][]int{nil}
				for c := len(hdr) - 2; c <= len(hdr)+6 && c < len(stream); c++ {
					if c > 0 {
						cuts = append(cuts, []int{c})
					}
				}
				for _, cut := range cuts {
					dst, err := os.MkdirTemp(scratchDir(), "ah")
					if err != nil {
						r.ToolErr = err.Error()
						return r
					}
					var m0, m1 runtime.MemStats
					runtime.ReadMemStats(&m0)
					crash := ""
					func() {
						defer func() {
							if e := recover(); e != nil {
								crash = fmt.Sprintf("%v", e)
							}
						}()
						top := &sourceFile{PathID: 0, RelPath: []string{"r"}, IsDir: true, Perm: &perm}
						_ = c15Consume(dst, top, stream, cut)
					}()
					runtime.ReadMemStats(&m1)
					os.RemoveAll(dst)
					r.Execs++
					r.Nontrivial++
					desc := fmt.Sprintf("archive entry header %s (member %s = %s) followed by %q, cut %v", render(m), mem, v, clipStr(payload, 12), cut)
					if crash != "" {
						r.Violate("c12:archive-header:panic:"+mem, desc+": the archive writer panics (in the product: in a goroutine without recover, the process dies): "+crash, nil)
					} else if d := m1.TotalAlloc - m0.TotalAlloc; d > 64<<20 {
						r.Violate("c12:archive-header:alloc:"+mem, fmt.Sprintf("%s: %d MiB allocated", desc, d>>20), nil)
					}
					if len(r.Violations) > 4 {
						return r
					}
				}
			}
		}
	}
	r.Outcomes["archive headers ok"] = r.Execs
	r.Samples = append(r.Samples, fmt.Sprintf("archive entry headers: %d members x %d values x 3 payloads x whole/cuts around the header end", len(members), len(vals)))
	return r
}

func c12Scanners(j vs.Job, p c12Params) *vs.JobResult {
	if p.Scanner == "archiveHeader" {
		return c12ArchiveHeaders(j)
	}
	r := &vs.JobResult{Outcomes: map[string]int64{}}
	toks := c12Tokens[p.Scanner]
	saved := writeToClipboard
	writeToClipboard = func(buf []byte) {}
	defer func() { writeToClipboard = saved }()
	maxLen := 4
	if len(toks) > 18 {
		maxLen = 3
	}
	if j.Tier == "thorough" && len(toks) <= 21 {
		maxLen++
		if len(toks) > 18 {
			maxLen = 4
		}
	}
	var cur []string
	var crash string
	s := vs.Run(vs.Config{NoRecord: true}, nil, nil, func() {
		var rec func(depth int)
		rec = func(depth int) {
			in := []byte(strings.Join(cur, ""))
			func() {
				defer func() {
					if e := recover(); e != nil && crash == "" {
						crash = fmt.Sprintf("%s(%q) panics: %v", p.Scanner, in, e)
					}
				}()
				c12Scan(p.Scanner, in)
			}()
			r.Execs++
			if len(cur) >= 2 {
				r.Nontrivial++
			}
			if depth == maxLen || crash != "" {
				return
			}
			for _, t := range toks {
				cur = append(cur, t)
				rec(depth + 1)
				cur = cur[:len(cur)-1]
			}
		}
		rec(0)
	})
	r.Steps = int64(s.Steps)
	if len(s.Crash) > 0 && crash == "" {
		crash = s.CrashString()
	}
	if s.Deadlock {
		crash = p.Scanner + " blocks for ever on some input"
	}
	if crash != "" {
		r.Violate("c12:scanner:"+p.Scanner, crash, nil)
	}
	r.Outcomes[p.Scanner+" ok"] = r.Execs
	r.Samples = append(r.Samples, fmt.Sprintf("%s: all strings of <=%d tokens over %d tokens, e.g. %q", p.Scanner, maxLen, len(toks), strings.Join(toks[:3], "")))
	_ = bytes.Equal
	return r
}

// progressOracle is attached to the terminal writer by C12; the line-level checks live in C20.
func progressOracle(term string, columns int) string {
	return progressLinesOracle(term, columns)
}
