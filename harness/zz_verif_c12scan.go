package trzsz

import (
	"bytes"
	"encoding/json"
	"fmt"
	"io"
	"strings"
	"time"

	vs "github.com/trzsz/trzsz-go/zzverif/vsched"
)

var c12ScannerNames = []string{"detectTrzsz", "detectZmodem", "detectOSC52", "detectDragFiles", "stripTmuxStatusLine", "readLineOnWindows", "escapeTable", "transformPromptInput", "drag-mac-win"}

// token alphabets: fragments that steer each scanner into its branches
var c12Tokens = map[string][]string{
	"detectTrzsz":          {"::TRZSZ:TRANSFER:", "S:", "R:", "D:", "1.1.8", "999.999.999", "4294967296.0.0", ":1234567890100", ":1", ":123456", ":0", ":65535", "\r\n", "%output %1 ", "%extended-output %1 0 : ", "#CFG:", "Saved", strings.Repeat("x", 41), ":", ".", "\x1b7\x07"},
	"detectZmodem":         {"**\x18B0", "0", "1", "8", "0123456789ab", "0123456789a", "\x18\x18\x18\x18\x18", "cannot open ", "x", "*"},
	"detectOSC52":          {"\x1b]52;", "c;", "p;", "x;", "c", ";", "QUJD", "\a", "\x1b", "\x1b\\", strings.Repeat("A", 100001), "!", ""},
	"detectDragFiles":      {"/", "'/", "' ", " ", "tmp", "/tmp", "/no/such", "\\ ", "\\", "'", "\x1b[200~", "\x1b[201~", "\x1b[20", "a", "\"", "/tmp "},
	"stripTmuxStatusLine":  {"\x1bP=", "\x1b\\", "\x1b", "P=", "x", "#SUCC:1", "\\", ""},
	"readLineOnWindows":    {"#", "A", "8", "!", "\n", "\r", "\x1b[", "25;119H", "H", "K", "m", "\x1b", "\x03", "[", "1", ";", " ", "="},
	"escapeTable":          {"[", "]", "\"", "\\u00ee", "\u00ee", "1", ",", "a", "null", "{", "}", ":", "\\u", "\\ud800"},
	"transformPromptInput": {"send -t %1 ", "send -lt %1 ", "0x3", "0xd", "0x", "0xzz", "0x7fffffff", ";", "\r", "\x1b[", "A", "B", "Z", "q", "\x03", "j", "\t", " "},
	"drag-mac-win":         {"/", "/Users", "\\ ", " ", "C:\\", "C:\\Windows", "\"", "/c/", "/cygdrive/c/", "x", "\\", "'", ":", "\x1b[200~"},
}

func c12Scan(name string, in []byte) {
	switch name {
	case "detectTrzsz":
		for _, mode := range [][2]bool{{false, false}, {true, false}, {true, true}} {
			d := newTrzszDetector(mode[0], mode[1])
			for _, tunnel := range []bool{false, true} {
				out, trig := d.detectTrzsz(append([]byte(nil), in...), tunnel)
				_ = out
				_ = trig
			}
		}
	case "detectZmodem":
		detectZmodem(in)
	case "detectOSC52":
		f := &TrzszFilter{}
		// feed as one read and as two reads
		f.detectOSC52(append([]byte(nil), in...))
		f2 := &TrzszFilter{}
		h := len(in) / 2
		f2.detectOSC52(append([]byte(nil), in[:h]...))
		f2.detectOSC52(append([]byte(nil), in[h:]...))
	case "detectDragFiles":
		detectDragFiles(append([]byte(nil), in...))
	case "drag-mac-win":
		detectDragFilesOnMacOS(append([]byte(nil), in...))
		detectDragFilesOnWindows(append([]byte(nil), in...))
	case "stripTmuxStatusLine":
		t := &trzszTransfer{}
		t.stripTmuxStatusLine(append([]byte(nil), in...))
	case "readLineOnWindows":
		b := newTrzszBuffer()
		b.addBuffer(append([]byte(nil), in...))
		fired := make(chan time.Time, 1)
		fired <- time.Time{}
		b.readLineOnWindows(fired)
	case "escapeTable":
		var t escapeTable
		_ = json.Unmarshal(in, &t)
		var cfg transferConfig
		_ = json.Unmarshal([]byte(`{"escape_chars":`+string(in)+`}`), &cfg)
	case "transformPromptInput":
		pr, pw := io.Pipe()
		go io.Copy(io.Discard, pr)
		f := &TrzszFilter{}
		f.transformPromptInput(pw, append([]byte(nil), in...))
		pw.Close()
	}
}

func c12Scanners(j vs.Job, p c12Params) *vs.JobResult {
	r := &vs.JobResult{Outcomes: map[string]int64{}}
	toks := c12Tokens[p.Scanner]
	saved := writeToClipboard
	writeToClipboard = func(buf []byte) {}
	defer func() { writeToClipboard = saved }()
	maxLen := 4
	if len(toks) > 18 {
		maxLen = 3
	}
	if j.Tier == "thorough" && len(toks) <= 21 {
		maxLen++
		if len(toks) > 18 {
			maxLen = 4
		}
	}
	var cur []string
	var crash string
	s := vs.Run(vs.Config{NoRecord: true}, nil, nil, func() {
		var rec func(depth int)
		rec = func(depth int) {
			in := []byte(strings.Join(cur, ""))
			func() {
				defer func() {
					if e := recover(); e != nil && crash == "" {
						crash = fmt.Sprintf("%s(%q) panics: %v", p.Scanner, in, e)
					}
				}()
				c12Scan(p.Scanner, in)
			}()
			r.Execs++
			if len(cur) >= 2 {
				r.Nontrivial++
			}
			if depth == maxLen || crash != "" {
				return
			}
			for _, t := range toks {
				cur = append(cur, t)
				rec(depth + 1)
				cur = cur[:len(cur)-1]
			}
		}
		rec(0)
	})
	r.Steps = int64(s.Steps)
	if len(s.Crash) > 0 && crash == "" {
		crash = s.CrashString()
	}
	if s.Deadlock {
		crash = p.Scanner + " blocks for ever on some input"
	}
	if crash != "" {
		r.Violate("c12:scanner:"+p.Scanner, crash, nil)
	}
	r.Outcomes[p.Scanner+" ok"] = r.Execs
	r.Samples = append(r.Samples, fmt.Sprintf("%s: all strings of <=%d tokens over %d tokens, e.g. %q", p.Scanner, maxLen, len(toks), strings.Join(toks[:3], "")))
	_ = bytes.Equal
	return r
}

// progressOracle is attached to the terminal writer by C12; the line-level checks live in C20.
func progressOracle(term string, columns int) string {
	return progressLinesOracle(term, columns)
}
