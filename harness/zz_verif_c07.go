package trzsz

// C07 — without -y nothing that already exists at the destination is touched (DESIGN.md §3 C07).
// World runs at budget 0 over prior destination states x incoming name sets x protocols x
// directory mode x both receiving roles, plus repeated transfers of the same sources.

import (
	"fmt"
	"os"
	"path/filepath"
	"sort"
	"strings"
	"time"

	vs "github.com/trzsz/trzsz-go/zzverif/vsched"
)

type c07Params struct {
	W      []wParams `json:"w"`
	Repeat int       `json:"repeat,omitempty"` // consecutive transfers of the same sources into one destination
	// Interrupt: instead of letting the transfers finish, stop-and-delete arrives before every 5th scheduler
	// step (client side; for uploads the server does the deleting): what existed before must survive that too
	Interrupt bool `json:"interrupt,omitempty"`
	// Relayed: histories of two transfers through one relay into the same destination (first with -y, then without)
	Relayed bool `json:"relayed,omitempty"`
}

// c07Fresh is the reference for the fresh-name rule: name, else the first of name.0 .. name.999
// that does not exist; "" if there is none.
func c07Fresh(exists func(string) bool, name string) string {
	if !exists(name) {
		return name
	}
	for i := 0; i < 1000; i++ {
		n := fmt.Sprintf("%s.%d", name, i)
		if !exists(n) {
			return n
		}
	}
	return ""
}

// c07Oracle checks one finished transfer against the destination's prior state.
func c07Oracle(w *world, r *worldResult) string {
	if len(r.Sched.Crash) > 0 {
		return "panic: " + r.Sched.CrashString()
	}
	if r.Sched.Horizon {
		return "horizon reached: the transfer does not terminate"
	}
	after := r.DstFull
	// (a) nothing that existed was modified, truncated, renamed or removed
	for k, v := range w.pre {
		if g, ok := after[k]; !ok {
			return fmt.Sprintf("pre-existing %s was removed or renamed", k)
		} else if g != v {
			return fmt.Sprintf("pre-existing %s was modified: %s -> %s", k, v, g)
		}
	}
	// reference mapping of incoming top-level names to fresh names
	exists := map[string]bool{}
	for k := range w.pre {
		if !strings.Contains(k, "/") {
			exists[k] = true
		}
	}
	src := snapshot(w.srcRoot)
	want := map[string]string{}
	var fresh []string
	possible := true
	for _, top := range w.tops {
		base := top[strings.LastIndex(top, "/")+1:]
		f := ""
		if len(base) <= 255 {
			f = c07Fresh(func(n string) bool { return exists[n] }, base)
		}
		if f == "" || len(f) > 255 {
			possible = false
			break
		}
		exists[f] = true
		fresh = append(fresh, f)
		for k, v := range src {
			if k == top {
				want[f] = v
			} else if strings.HasPrefix(k, top+"/") {
				want[f+k[len(top):]] = v
			}
		}
	}
	created := map[string]string{}
	plain := r.Dst
	for k, v := range plain {
		if _, ok := w.pre[k]; !ok {
			created[k] = v
		}
	}
	said := serverSaid(r.SrvStdout)
	srvOK := r.SrvDone && r.SrvErr == "" && strings.HasPrefix(said, "Saved ")
	cliOK := strings.HasPrefix(r.ClientExit, "Saved ")
	if !possible {
		// (d) no fresh name: fail rather than reuse an existing one
		if srvOK || cliOK {
			return fmt.Sprintf("no fresh name exists but a side reported success (server=%v client=%v)", srvOK, cliOK)
		}
		if !r.SrvDone {
			return "no fresh name exists and the server never returned"
		}
		return ""
	}
	if !srvOK || !cliOK {
		return fmt.Sprintf("fresh names exist %v but the transfer failed: server err=%q said=%q client exit=%q fail=%q", fresh, clipStr(r.SrvErr, 200), clipStr(said, 120), clipStr(r.ClientExit, 80), clipStr(r.ClientFail, 200))
	}
	// (b) every incoming top-level name under exactly one fresh name, whole directories consistently
	if d := snapDiff(want, created); d != "" {
		return fmt.Sprintf("entries created differ from the reference mapping %v: %s", fresh, d)
	}
	// (c) names reported = names used
	sort.Strings(fresh)
	for _, msg := range []string{said, r.ClientExit} {
		if names, ok := savedNames(msg); ok {
			sort.Strings(names)
			if strings.Join(names, "|") != strings.Join(fresh, "|") {
				return fmt.Sprintf("names reported %q are not the names used %q", names, fresh)
			}
		}
	}
	return ""
}

func c07Run(j vs.Job) *vs.JobResult {
	var p c07Params
	j.Decode(&p)
	r := &vs.JobResult{Outcomes: map[string]int64{}}
	states := map[uint64]struct{}{}
	if p.Relayed {
		// two transfers through the same relay into one destination: with -y, then without: the second one must not inherit the first one's overwrite
		for _, wp := range p.W {
			w, res := runWorld(wp, vs.Config{Trace: j.Replay != nil}, nil, nil, nil)
			r.Execs++
			r.Nontrivial++
			v := ""
			if len(res.Next) != len(wp.Then) {
				v = "the history did not run to its end"
			} else if !strings.HasPrefix(serverSaid(res.SrvStdout), "Saved ") || !strings.HasPrefix(res.ClientExit, "Saved ") {
				v = fmt.Sprintf("the first transfer (with -y) did not succeed: server said %q, client exit %q", clipStr(serverSaid(res.SrvStdout), 80), clipStr(res.ClientExit, 80))
			} else {
				last := res.Next[len(res.Next)-1]
				last.Sched = res.Sched // one execution, one schedule record
				v = c07Oracle(w, last)
			}
			if v != "" {
				r.Violate("c07:relayed:"+wp.String(), wp.String()+": last transfer of the history: "+v, wp)
			}
		}
		return r
	}
	if p.Interrupt {
		for _, wp := range p.W {
			w0, res0 := runWorld(wp, vs.Config{}, nil, nil, nil)
			if v := c07Oracle(w0, res0); v != "" {
				r.Violate("c07:"+wp.String(), wp.String()+": "+v, nil)
				continue
			}
			for step := 3; step <= res0.StepsAtDone; step += 5 {
				if j.Deadline > 0 && time.Now().Unix() > j.Deadline {
					r.Capped = "deadline"
					break
				}
				c := wp
				c.Stop = &wStop{Side: "client", Delete: true, Step: step}
				w, res := runWorld(c, vs.Config{Trace: j.Replay != nil}, nil, nil, nil)
				r.Execs++
				r.Nontrivial++
				r.Steps += int64(res.Sched.Steps)
				v := ""
				switch {
				case len(res.Sched.Crash) > 0:
					v = "panic: " + res.Sched.CrashString()
				case res.Sched.Horizon:
					v = "horizon reached"
				default:
					for k, pv := range w.pre {
						if g, ok := res.DstFull[k]; !ok {
							v = fmt.Sprintf("pre-existing %s was removed or renamed by a transfer that was stopped with 'delete'", k)
						} else if g != pv {
							v = fmt.Sprintf("pre-existing %s was modified by a transfer that was stopped with 'delete': %s -> %s", k, pv, g)
						}
					}
				}
				r.Outcomes[fmt.Sprintf("stop-hit=%v", res.StopHit)]++
				if v != "" {
					r.Violate("c07:interrupt:"+wp.String(), fmt.Sprintf("%s: %s", c.String(), v), c)
					break
				}
			}
		}
		return r
	}
	for _, wp := range p.W {
		if j.Deadline > 0 && time.Now().Unix() > j.Deadline {
			r.Capped = "deadline"
			break
		}
		reps := p.Repeat
		if reps == 0 {
			reps = 1
		}
		shared := ""
		if reps > 1 {
			shared = filepath.Join(scratchDir(), fmt.Sprintf("hist%d", worldSeq))
			wp.DstRoot = shared
		}
		for k := 0; k < reps; k++ {
			if k > 0 {
				wp.DstPre = "" // later rounds start from whatever the earlier ones left
			}
			w, res := runWorld(wp, vs.Config{Trace: j.Replay != nil}, nil, nil, nil)
			r.Execs++
			r.Nontrivial++
			r.Steps += int64(res.Sched.Steps)
			for h := range res.Sched.Finger {
				states[h] = struct{}{}
			}
			v := c07Oracle(w, res)
			r.Outcomes[fmt.Sprintf("ok=%v", strings.HasPrefix(res.ClientExit, "Saved"))]++
			if len(r.Samples) < 2 {
				r.Samples = append(r.Samples, fmt.Sprintf("%s round %d -> exit=%q", wp, k, clipStr(res.ClientExit, 80)))
			}
			if j.Replay != nil {
				r.Notes = append(r.Notes, fmt.Sprintf("round %d: srvErr=%q stdout=%q clientExit=%q clientFail=%q pre=%v dst=%v", k, res.SrvErr, res.SrvStdout, res.ClientExit, res.ClientFail, w.pre, res.Dst))
			}
			if v != "" {
				r.Violate("c07:"+wp.String(), fmt.Sprintf("%s (round %d): %s", wp.String(), k, v), nil)
				break
			}
		}
		if shared != "" {
			os.RemoveAll(shared)
		}
	}
	for h := range states {
		r.States = append(r.States, h)
	}
	return r
}

func c07Configs(tier string) (single []wParams, hist []wParams) {
	kinds := []byte{'-', 'f', 'e', 'n'}
	var pres []string
	for _, a := range kinds {
		for _, b := range kinds {
			for _, c := range kinds {
				pres = append(pres, "c07:"+string([]byte{a, b, c}))
			}
		}
	}
	pres = append(pres, "c07:series:1000", "c07:series:500")
	protos := []int{0, 2}
	if tier == "thorough" {
		protos = []int{0, 3, 2, 1}
	}
	for _, dir := range []string{"up", "down"} {
		for _, pr := range protos {
			for _, tree := range []string{"one:T:300", "dir", "samebase", "dir2", "emptytop"} {
				for _, dm := range []bool{false, true} {
					if (strings.HasPrefix(tree, "dir") || tree == "emptytop") && !dm {
						continue
					}
					for _, pre := range pres {
						if strings.HasPrefix(pre, "c07:series") && tree != "one:T:300" {
							continue
						}
						single = append(single, wParams{Dir: dir, Protocol: pr, Tree: tree, Directory: dm, DstPre: pre})
					}
					hist = append(hist, wParams{Dir: dir, Protocol: pr, Tree: tree, Directory: dm, DstPre: "c07:f-n"})
				}
			}
			for _, ln := range []string{"longname:255", "longname:254", "longname:253"} {
				for _, pre := range []string{"c07:---", "c07:f--", "c07:ff-"} {
					single = append(single, wParams{Dir: dir, Protocol: pr, Tree: ln, DstPre: pre})
				}
			}
		}
	}
	return
}

func init() {
	vs.Register(&vs.Check{
		ID:    "C07",
		Level: "exploration",
		Rule: "prior destination state (4^3 kinds at name/name.0/name.1, full and gapped name.N series, long names) x incoming set (file, directory, two paths with one base name, directory plus file, empty top-level directory plus file) " +
			"x protocol x directory mode x receiving role, and the same sources transferred three times in a row; each a full transfer through the real code; distinct by construction; " +
			"16 histories through one or two relays (a transfer with -y, then one without, into the same destination); 24 collision configurations additionally interrupted by stop-and-delete before every 5th scheduler step (pre-existing entries must survive)",
		Assumptions: []string{"same trusted base as C01 (server main replica, default schedule)", "snapshots compare type, size, SHA-256, permission bits and file mtime of every pre-existing entry"},
		QuickBudget: 100, ThoroughBudget: 600, DiedIsViolation: true,
		Jobs: func(tier string) []vs.Job {
			single, hist := c07Configs(tier)
			var jobs []vs.Job
			const batch = 48
			for i := 0; i < len(single); i += batch {
				e := i + batch
				if e > len(single) {
					e = len(single)
				}
				jobs = append(jobs, vs.MkJob(fmt.Sprintf("single %d-%d", i, e), c07Params{W: single[i:e]}))
			}
			// interrupted transfers: stop-and-delete must not touch what existed before either
			var intr []wParams
			for _, dir := range []string{"up", "down"} {
				for _, pr := range []int{0, 2} {
					for _, pre := range []string{"c07:f--", "c07:n--", "c07:ff-"} {
						intr = append(intr, wParams{Dir: dir, Protocol: pr, Tree: "one:T:300", DstPre: pre, Timeout: 3},
							wParams{Dir: dir, Protocol: pr, Tree: "dir", Directory: true, DstPre: pre, Timeout: 3})
					}
				}
			}
			for i := 0; i < len(intr); i += 2 {
				jobs = append(jobs, vs.MkJob(fmt.Sprintf("interrupted %d-%d", i, i+2), c07Params{W: intr[i : i+2], Interrupt: true}))
			}
			var rel []wParams
			for _, dir := range []string{"down", "up"} {
				for _, relays := range []int{1, 2} {
					for _, tree := range []string{"small3", "one:T:300"} {
						rel = append(rel, wParams{Dir: dir, Relays: relays, Tree: tree, Overwrite: true, Timeout: 3, Then: []wParams{{Dir: dir, Tree: tree, DstSame: true}}},
							wParams{Dir: dir, Relays: relays, Tree: tree, Overwrite: true, Timeout: 3, Then: []wParams{{Dir: dir, Tree: tree, DstSame: true, Overwrite: true}, {Dir: dir, Tree: tree, DstSame: true}}})
					}
				}
			}
			jobs = append(jobs, vs.MkJob("relayed histories", c07Params{W: rel, Relayed: true}))
			for i := 0; i < len(hist); i += 4 {
				e := i + 4
				if e > len(hist) {
					e = len(hist)
				}
				jobs = append(jobs, vs.MkJob(fmt.Sprintf("history %d-%d", i, e), c07Params{W: hist[i:e], Repeat: 3}))
			}
			return jobs
		},
		Run: c07Run,
	})
}
