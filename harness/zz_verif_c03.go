package trzsz

// C03 — stream reassembly does not depend on how the transport chunks the bytes.
// Exhaustive small-scope enumeration on the real trzszBuffer under the scheduler
// (DESIGN.md §3 C03): all streams up to length n over {a, LF, CR, '#', ':', Ctrl-C} x all
// segmentations into non-empty chunks x operation sequences, against a cursor reference model.

import (
	"bytes"
	"fmt"
	"io"
	"strings"
	"time"

	vs "github.com/trzsz/trzsz-go/zzverif/vsched"
	vtime "github.com/trzsz/trzsz-go/zzverif/vsched/vtime"
)

var c03Alphabet = []byte{'a', '\n', '\r', '#', ':', 0x03}

type c03Op struct {
	kind byte // 'L' strict line, 'J' junk-tolerant line, 'B' sized binary
	size int
}

func (o c03Op) String() string {
	if o.kind == 'B' {
		return fmt.Sprintf("B%d", o.size)
	}
	return string(o.kind)
}

func c03OpSeqs() [][]c03Op {
	base := []c03Op{{'L', 0}, {'J', 0}, {'B', 0}, {'B', 1}, {'B', 2}, {'B', 3}}
	var out [][]c03Op
	for _, a := range base {
		out = append(out, []c03Op{a})
		for _, b := range base {
			out = append(out, []c03Op{a, b})
		}
	}
	core := []c03Op{{'L', 0}, {'J', 0}, {'B', 1}, {'B', 2}}
	for _, a := range core {
		for _, b := range core {
			for _, c := range core {
				out = append(out, []c03Op{a, b, c})
				if a.kind != 'B' && c.kind != 'B' {
					out = append(out, []c03Op{a, b, c, {'L', 0}}, []c03Op{a, b, c, {'J', 0}})
				}
			}
		}
	}
	return out
}

// reference model: a cursor over the bytes that have arrived so far
type c03Ref struct {
	s   []byte
	cur int
}

const (
	c03OK = iota
	c03Blocked
	c03Interrupted
)

func (r *c03Ref) do(op c03Op) (int, []byte) {
	switch op.kind {
	case 'B':
		if len(r.s)-r.cur < op.size {
			return c03Blocked, nil
		}
		v := r.s[r.cur : r.cur+op.size]
		r.cur += op.size
		return c03OK, v
	default:
		var acc []byte
		for {
			j := bytes.IndexByte(r.s[r.cur:], '\n')
			if j < 0 {
				if bytes.IndexByte(r.s[r.cur:], 0x03) >= 0 {
					return c03Interrupted, nil
				}
				return c03Blocked, nil
			}
			seg := r.s[r.cur : r.cur+j]
			r.cur += j + 1
			if bytes.IndexByte(seg, 0x03) >= 0 {
				return c03Interrupted, nil
			}
			acc = append(acc, seg...)
			if op.kind == 'J' && len(acc) > 0 && acc[len(acc)-1] == '\r' {
				acc = acc[:len(acc)-1]
				continue
			}
			return c03OK, acc
		}
	}
}

func c03Impl(b *trzszBuffer, op c03Op, timeout <-chan time.Time) (int, []byte, error) {
	var v []byte
	var err error
	switch op.kind {
	case 'L':
		v, err = b.readLine(false, timeout)
	case 'J':
		v, err = b.readLine(true, timeout)
	case 'B':
		v, err = b.readBinary(op.size, timeout)
	}
	switch {
	case err == nil:
		return c03OK, v, nil
	case err == errReceiveDataTimeout:
		return c03Blocked, nil, nil
	case err.Error() == "Interrupted":
		return c03Interrupted, nil, nil
	}
	return -1, nil, err
}

func c03Segment(stream []byte, mask int) [][]byte {
	var chunks [][]byte
	start := 0
	for i := 1; i < len(stream); i++ {
		if mask&(1<<(i-1)) != 0 {
			chunks = append(chunks, stream[start:i])
			start = i
		}
	}
	if len(stream) > 0 {
		chunks = append(chunks, stream[start:])
	}
	return chunks
}

type c03Params struct {
	Depth2 bool `json:"depth2"` // only the operation sequences of depth <= 2
	Len    int  `json:"len"`
	First  int  `json:"first"` // index of the first byte in the alphabet (shard)
	Lazy   bool `json:"lazy"`  // chunks arrive one at a time, only when the reader is blocked
	Pump   bool `json:"pump,omitempty"`
}

var c03StatusName = []string{"ok", "BLOCKED", "Interrupted"}

// c03Case runs one (stream, segmentation, op sequence) on the real buffer and compares with the model.
func c03Case(b *trzszBuffer, stream []byte, chunks [][]byte, ops []c03Op, lazy bool) string {
	ref := &c03Ref{s: stream}
	fired := make(chan time.Time, 1)
	fired <- time.Time{}
	done := false
	var feeder *vs.Thread
	if lazy {
		reader := vs.Cur()
		feeder = vs.Go("feeder", func() {
			for _, c := range chunks {
				vs.Point("feeder.wait", 0, func() bool { return done || vs.Blocked(reader) })
				if done {
					return
				}
				b.addBuffer(c)
			}
		})
	} else {
		for _, c := range chunks {
			b.addBuffer(c)
		}
	}
	res := ""
	for i, op := range ops {
		var timeout <-chan time.Time = fired
		if lazy {
			timeout = vtime.After(time.Second)
		}
		st, v, err := c03Impl(b, op, timeout)
		if err != nil {
			res = fmt.Sprintf("op %d %v: unexpected error %v", i, op, err)
			break
		}
		rst, rv := ref.do(op)
		if st != rst || !bytes.Equal(v, rv) {
			res = fmt.Sprintf("op %d %v: implementation %s %q, reference %s %q", i, op, c03StatusName[st], v, c03StatusName[rst], rv)
			break
		}
		if st != c03OK {
			break
		}
	}
	done = true
	if lazy {
		vs.Point("case.end", 0, feeder.Done) // lets the feeder finish
	}
	return res
}

// c03Pump: the same question one layer up — the bytes go through the real input pump
// (wrapTransferInput) that trz/tsz put in front of the buffer: a long stream of lines, junk-tolerant
// lines and sized binary blocks, every transport read size of a menu, the reader consuming everything
// only after the pump has swallowed the whole stream (a backlog far beyond one pump buffer), after
// each write, or lagging by a fixed number of writes.
func c03Pump(r *vs.JobResult) {
	type item struct {
		kind byte // 'L' strict line, 'J' junk line, 'B' binary
		data []byte
	}
	var items []item
	var stream []byte
	for i := 0; i < 90; i++ {
		line := []byte(fmt.Sprintf("#DATA:%04d:%s", i, strings.Repeat(string(rune('a'+i%26)), 300+(i*37)%900)))
		switch i % 3 {
		case 0:
			items = append(items, item{'L', line})
			stream = append(append(stream, line...), '\n')
		case 1:
			items = append(items, item{'J', line})
			stream = append(append(stream, line...), '\n')
		default:
			blk := genContent('E', i, 700+(i*53)%2500)
			items = append(items, item{'B', blk})
			stream = append(stream, blk...)
		}
	}
	for _, seg := range []int{1000, 4096, 5000, 32768, 333, 100000} {
		for _, lag := range []int{-1, 0, 3, 12} { // -1: read only after everything was pumped
			viol := ""
			s := vs.Run(vs.Config{MaxSteps: 5_000_000, NoRecord: true}, nil, nil, func() {
				t := newTransfer(io.Discard, nil, false, nil)
				in := vs.NewPipe("stdin")
				wrapTransferInput(t, in, false)
				next := 0
				readOne := func() bool {
					it := items[next]
					var v []byte
					var err error
					tmo := vtime.After(time.Second)
					switch it.kind {
					case 'L':
						v, err = t.buffer.readLine(false, tmo)
					case 'J':
						v, err = t.buffer.readLine(true, tmo)
					default:
						v, err = t.buffer.readBinary(len(it.data), tmo)
					}
					if err != nil || !bytes.Equal(v, it.data) {
						viol = fmt.Sprintf("item %d (%c, %d bytes) read through the input pump: got %d bytes %q..., err %v, want %q...", next, it.kind, len(it.data), len(v), clipStr(string(v), 40), err, clipStr(string(it.data), 40))
						return false
					}
					next++
					return true
				}
				written, writes := 0, 0
				for off := 0; off < len(stream); off += seg {
					e := off + seg
					if e > len(stream) {
						e = len(stream)
					}
					in.Write(stream[off:e])
					vs.WaitSettled(func() bool { return false }, 0) // the pump has taken it
					written = e
					writes++
					if lag >= 0 && writes > lag {
						// consume every item that is completely there up to `lag` writes ago
						limit := written - lag*seg
						consumed := 0
						for _, it := range items[:next] {
							consumed += len(it.data)
							if it.kind != 'B' {
								consumed++
							}
						}
						for next < len(items) {
							need := len(items[next].data)
							if items[next].kind != 'B' {
								need++
							}
							if consumed+need > limit {
								break
							}
							if !readOne() {
								return
							}
							consumed += need
						}
					}
				}
				for next < len(items) {
					if !readOne() {
						return
					}
				}
			})
			r.Execs++
			r.Nontrivial++
			if len(s.Crash) > 0 {
				viol = "panic: " + s.CrashString()
			}
			if viol != "" {
				r.Violate("c03:pump", fmt.Sprintf("transport reads of %d bytes, reader lagging %d writes (-1: reads after the whole stream): %s", seg, lag, viol), nil)
				return
			}
		}
	}
	r.Samples = append(r.Samples, fmt.Sprintf("input pump: %d items / %d bytes x 6 transport read sizes x 4 reader lags", len(items), len(stream)))
}

func c03Run(j vs.Job) *vs.JobResult {
	var p c03Params
	j.Decode(&p)
	r := &vs.JobResult{Outcomes: map[string]int64{}}
	if p.Pump {
		c03Pump(r)
		return r
	}
	opseqs := c03OpSeqs()
	if p.Depth2 {
		opseqs = opseqs[:42]
	}
	stream := make([]byte, p.Len)
	idx := make([]int, p.Len)
	if p.Len > 0 {
		idx[0] = p.First
	}
	states := map[uint64]struct{}{}
	nstreams := 0
	deadline := time.Unix(j.Deadline, 0)
	body := func() {
		for {
			for i, x := range idx {
				stream[i] = c03Alphabet[x]
			}
			nseg := 1
			if p.Len > 1 {
				nseg = 1 << (p.Len - 1)
			}
			for mask := 0; mask < nseg; mask++ {
				chunks := c03Segment(stream, mask)
				b := newTrzszBuffer()
				for _, ops := range opseqs {
					viol := c03Case(b, stream, chunks, ops, p.Lazy)
					r.Execs++
					if bytes.IndexByte(stream, '\n') >= 0 && len(chunks) > 1 {
						r.Nontrivial++
					}
					if viol != "" {
						// confirm on a fresh buffer before believing it
						v2 := c03Case(newTrzszBuffer(), stream, chunks, ops, p.Lazy)
						sig := fmt.Sprintf("c03:%q/%v/%v/lazy=%v", stream, chunks, ops, p.Lazy)
						if v2 == "" {
							viol = "(only on a reused buffer after popBuffer+drainBuffer) " + viol
						}
						r.Violate(sig, fmt.Sprintf("stream %q chunks %q ops %v lazy=%v: %s", stream, chunks, ops, p.Lazy, viol), nil)
						if len(r.Violations) >= 3 {
							return
						}
					}
					// back to a clean state through the buffer's own methods (non-initial-state coverage)
					b.popBuffer()
					b.drainBuffer()
					b.popBuffer()
				}
				if len(r.Samples) < 2 && mask == nseg-1 {
					r.Samples = append(r.Samples, fmt.Sprintf("stream=%q chunks=%q opseqs=%d e.g. %v lazy=%v", stream, chunks, len(opseqs), opseqs[len(opseqs)-1], p.Lazy))
				}
			}
			// next stream (first byte fixed by the shard)
			k := p.Len - 1
			for k >= 1 {
				idx[k]++
				if idx[k] < len(c03Alphabet) {
					break
				}
				idx[k] = 0
				k--
			}
			if k < 1 {
				return
			}
			if nstreams++; j.Deadline > 0 && nstreams%16 == 0 && time.Now().After(deadline) {
				r.Capped = "deadline"
				return
			}
		}
	}
	s := vs.Run(vs.Config{NoRecord: true}, nil, nil, body)
	r.Steps = int64(s.Steps)
	for h := range s.Finger {
		states[h] = struct{}{}
	}
	if s.Deadlock {
		r.ToolErr = "unexpected deadlock in sequential harness"
	}
	if len(s.Crash) > 0 {
		r.Violate("c03:crash:"+s.CrashString(), "panic: "+s.CrashString(), nil)
	}
	if s.Leaked > 0 {
		r.ToolErr = "threads leaked"
	}
	r.Outcomes[fmt.Sprintf("len=%d ok", p.Len)] = r.Execs
	return r
}

func init() {
	vs.Register(&vs.Check{
		ID:    "C03",
		Level: "exploration",
		Rule: "every byte stream of length 0..n over {a,LF,CR,#,:,Ctrl-C} x every segmentation into non-empty chunks (2^(n-1)) x " +
			"every operation sequence of the fixed menu (depth<=2 over {strict line, junk line, binary 0..3}, depth 3-4 over a core) on the real trzszBuffer, " +
			"eager (all chunks queued) and lazy (next chunk arrives only when the reader blocks) arrival; compared step by step with a cursor reference model; " +
			"non-trivial = stream contains LF and is split into >=2 chunks; plus a 150 KB stream of lines and binary blocks through the real input pump (wrapTransferInput) x 6 transport read sizes x 4 reader lags",
		Assumptions: []string{
			"BLOCKED is observed as the receive timeout firing only when no chunk is queued: under the scheduler a ready data chunk always wins the select, so a timeout result means the real code would have waited",
			"results after an Interrupted or a timeout are not compared (the transfer is over at that point)",
		},
		QuickBudget: 100, ThoroughBudget: 900,
		Jobs: func(tier string) []vs.Job {
			// full menu of operation sequences up to maxFull, depth<=2 sequences one byte further
			maxFull, maxLazy := 5, 5
			if tier == "thorough" {
				maxFull, maxLazy = 7, 6
			}
			var jobs []vs.Job
			add := func(n int, lazy, d2 bool) {
				if n == 0 {
					jobs = append(jobs, vs.MkJob(fmt.Sprintf("len0 lazy=%v", lazy), c03Params{false, 0, 0, lazy, false}))
					return
				}
				for f := range c03Alphabet {
					jobs = append(jobs, vs.MkJob(fmt.Sprintf("len%d first%d lazy=%v depth2=%v", n, f, lazy, d2), c03Params{d2, n, f, lazy, false}))
				}
			}
			jobs = append(jobs, vs.MkJob("input pump", c03Params{Pump: true}))
			// longest first for load balance
			add(maxFull+1, false, true)
			for n := maxFull; n >= 0; n-- {
				add(n, false, false)
				if n <= maxLazy {
					add(n, true, false)
				}
			}
			return jobs
		},
		Run: c03Run,
	})
}
