package trzsz

import (
	"fmt"
	"os"
	"path/filepath"
	"strings"
	"time"
)

var oldTime = time.Unix(1_500_000_000, 0)

func putFile(p string, data []byte) {
	must(os.MkdirAll(filepath.Dir(p), 0o755))
	must(os.WriteFile(p, data, 0o640))
	must(os.Chtimes(p, oldTime, oldTime))
}

// putKind creates one pre-existing entry: '-' nothing, 'f' file, 'e' empty dir, 'n' non-empty dir.
func putKind(p string, kind byte) {
	if len(filepath.Base(p)) > 255 {
		return // such an entry cannot exist
	}
	switch kind {
	case 'f':
		putFile(p, []byte("pre-existing file "+filepath.Base(p)))
	case 'e':
		must(os.MkdirAll(p, 0o750))
	case 'n':
		must(os.MkdirAll(p, 0o750))
		putFile(filepath.Join(p, "inner.txt"), []byte("pre-existing inner of "+filepath.Base(p)))
	}
}

// prepopulateImpl builds the prior destination state named by recipe.
//
//	c07:<k0><k1><k2>   for every incoming top-level base name: entries at name, name.0, name.1 (kinds -,f,e,n)
//	c07:series:<n>     name and name.0 .. name.<n-1> all exist as files (n=1000: no fresh name left)
//	c08:<rel>:<off>    overwrite tests, see c08Prev
func prepopulateImpl(dst string, recipe string, entries []treeEntry) {
	tops := map[string]bool{}
	for _, e := range entries {
		tops[e.Path] = true
	}
	switch {
	case strings.HasPrefix(recipe, "c07:series:"):
		var n int
		fmt.Sscanf(recipe[len("c07:series:"):], "%d", &n)
		for _, name := range prepopNames {
			putKind(filepath.Join(dst, name), 'f')
			for i := 0; i < n; i++ {
				putKind(filepath.Join(dst, fmt.Sprintf("%s.%d", name, i)), 'f')
			}
		}
	case strings.HasPrefix(recipe, "c07:"):
		k := recipe[4:]
		for _, name := range prepopNames {
			putKind(filepath.Join(dst, name), k[0])
			putKind(filepath.Join(dst, name+".0"), k[1])
			putKind(filepath.Join(dst, name+".1"), k[2])
		}
	case strings.HasPrefix(recipe, "c08:"):
		c08Prepopulate(dst, recipe[4:], entries)
	default:
		panic("prepopulate: unknown recipe " + recipe)
	}
	// unrelated siblings that must never change
	putFile(filepath.Join(dst, "sibling.keep"), []byte("sibling"))
	must(os.MkdirAll(filepath.Join(dst, "sibdir"), 0o755))
	putFile(filepath.Join(dst, "sibdir", "keep.txt"), []byte("sibling in dir"))
}

// prepopNames is set by the driver before buildWorld: the incoming top-level base names.
var prepopNames []string
