package trzsz

func prepopulateImpl(dst string, recipe string, entries []treeEntry) {
	panic("prepopulate: unknown recipe " + recipe)
}
