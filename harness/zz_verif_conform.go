package trzsz

// Conformance of the server-main replica (DESIGN.md §2.6): the real cmd/trz and cmd/tsz binaries,
// built from the current /repo, run as child processes over OS pipes against the (pass-through)
// filter in real time; the normalised transcript and the resulting files are compared with the
// virtual-world run of the same configuration. Counted as traces_validated_against_impl by C01.

import (
	"bytes"
	"fmt"
	"io"
	"os"
	"os/exec"
	"path/filepath"
	"strings"
	"sync"
	"time"

	vs "github.com/trzsz/trzsz-go/zzverif/vsched"
)

type teeRW struct {
	mu  sync.Mutex
	log bytes.Buffer
}

func (t *teeRW) add(b []byte) {
	t.mu.Lock()
	t.log.Write(b)
	t.mu.Unlock()
}

type teeReader struct {
	r io.Reader
	t *teeRW
}

func (r teeReader) Read(p []byte) (int, error) {
	n, err := r.r.Read(p)
	if n > 0 {
		r.t.add(p[:n])
	}
	return n, err
}

type teeWriteCloser struct {
	w io.WriteCloser
	t *teeRW
}

func (w teeWriteCloser) Write(p []byte) (int, error) {
	w.t.add(p)
	return w.w.Write(p)
}
func (w teeWriteCloser) Close() error { return nil } // the filter must not hang up the child

type blockingReader struct{ ch chan struct{} }

func (b blockingReader) Read(p []byte) (int, error) { <-b.ch; return 0, io.EOF }

// messageTypes reduces a byte stream to the sequence of protocol message types, consecutive
// repetitions collapsed (the number of data chunks and final acks depends on timing).
func messageTypes(stream []byte) []string {
	var out []string
	for _, line := range bytes.Split(stream, []byte("\n")) {
		i := bytes.LastIndexByte(line, '#')
		if i < 0 {
			continue
		}
		j := bytes.IndexByte(line[i:], ':')
		if j < 2 || j > 6 {
			continue
		}
		t := string(line[i : i+j])
		if t != strings.ToUpper(t) && t != "#fail" {
			continue
		}
		if len(out) == 0 || out[len(out)-1] != t {
			out = append(out, t)
		}
	}
	return out
}

func buildRealBinaries(dir string) error {
	for _, name := range []string{"trz", "tsz"} {
		build := exec.Command("/usr/bin/env", "PATH=/usr/local/go/bin:/usr/lib/go-1.23/bin:/usr/bin:/bin", "HOME=/root", "GOFLAGS=-mod=mod", "GOPROXY=off", "GOSUMDB=off", "GOTOOLCHAIN=local", "CGO_ENABLED=0",
			"go", "build", "-o", filepath.Join(dir, name), "./cmd/"+name)
		build.Dir = "/repo"
		if out, err := build.CombinedOutput(); err != nil {
			return fmt.Errorf("cannot build cmd/%s: %s", name, clipStr(string(out), 300))
		}
	}
	return nil
}

// conformReal runs one configuration against the real binary in real time.
func conformReal(binDir string, wp wParams) (c2s, s2c []string, dst map[string]string, said string, err error) {
	root, e := os.MkdirTemp(scratchDir(), "conf")
	if e != nil {
		return nil, nil, nil, "", e
	}
	defer os.RemoveAll(root)
	dstRoot := filepath.Join(root, "dst")
	os.MkdirAll(dstRoot, 0o755)
	srcRoot, _, tops := sharedTree(wp.Tree)
	var args []string
	if wp.Overwrite {
		args = append(args, "-y")
	}
	if wp.Binary {
		args = append(args, "-b")
	}
	if wp.Directory {
		args = append(args, "-d")
	}
	if wp.Quiet {
		args = append(args, "-q")
	}
	name := "trz"
	if wp.Dir == "up" {
		args = append(args, dstRoot)
	} else {
		name = "tsz"
		for _, t := range tops {
			args = append(args, filepath.Join(srcRoot, filepath.FromSlash(t)))
		}
	}
	cmd := exec.Command(filepath.Join(binDir, name), args...)
	cmd.Env = []string{"PATH=/nonexistent", "HOME=/nonexistent", "TERM=xterm"}
	childIn, _ := cmd.StdinPipe()
	childOut, _ := cmd.StdoutPipe()
	var stderr bytes.Buffer
	cmd.Stderr = &stderr
	if e := cmd.Start(); e != nil {
		return nil, nil, nil, "", e
	}
	up, down := &teeRW{}, &teeRW{}
	keys := blockingReader{make(chan struct{})}
	term := &teeRW{}
	filter := NewTrzszFilter(keys, teeWriteCloser{nopWriteCloser{io.Discard}, term}, teeWriteCloser{childIn, up}, teeReader{childOut, down}, TrzszOptions{TerminalColumns: 100})
	if wp.Dir == "down" {
		filter.SetDefaultDownloadPath(dstRoot)
	} else {
		var paths []string
		for _, t := range tops {
			paths = append(paths, filepath.Join(srcRoot, filepath.FromSlash(t)))
		}
		if _, e := filter.OneTimeUpload(paths); e != nil {
			return nil, nil, nil, "", e
		}
	}
	done := make(chan error, 1)
	go func() { done <- cmd.Wait() }()
	select {
	case <-done:
	case <-time.After(30 * time.Second):
		cmd.Process.Kill()
		return nil, nil, nil, "", fmt.Errorf("the real %s did not finish within 30 s (stderr %q)", name, clipStr(stderr.String(), 200))
	}
	time.Sleep(50 * time.Millisecond)
	up.mu.Lock()
	down.mu.Lock()
	c2s, s2c = messageTypes(up.log.Bytes()), messageTypes(down.log.Bytes())
	said = serverSaid(lastScreen(down.log.Bytes()))
	down.mu.Unlock()
	up.mu.Unlock()
	return c2s, s2c, snapshot(dstRoot), said, nil
}

// lastScreen: what the real server printed after the transfer (it goes to the same stdout).
func lastScreen(b []byte) string {
	if i := bytes.LastIndex(b, []byte("\x1b8\x1b[0J")); i >= 0 {
		return string(b[i:])
	}
	return ""
}

// conformConfigs is the fixed list of configurations compared with the real binaries.
func conformConfigs() []wParams {
	return []wParams{
		{Dir: "up", Tree: "small3"},
		{Dir: "down", Tree: "small3"},
		{Dir: "up", Tree: "dir", Directory: true},
		{Dir: "down", Tree: "dir", Directory: true},
		{Dir: "up", Tree: "dir", Directory: true, Overwrite: true},
		{Dir: "down", Tree: "small3", Binary: true},
		{Dir: "up", Tree: "one:R:131073", Binary: true},
		{Dir: "down", Tree: "one:T:0", Quiet: true},
	}
}

// conformRun compares every configuration; returns the number of agreeing traces.
func conformRun(r *vs.JobResult) {
	binDir, err := os.MkdirTemp(scratchDir(), "bin")
	if err != nil {
		r.ToolErr = err.Error()
		return
	}
	defer os.RemoveAll(binDir)
	if err := buildRealBinaries(binDir); err != nil {
		r.ToolErr = err.Error()
		return
	}
	for _, wp := range conformConfigs() {
		rc2s, rs2c, rdst, rsaid, err := conformReal(binDir, wp)
		if err != nil {
			r.ToolErr = fmt.Sprintf("conformance %s: %v", wp.String(), err)
			return
		}
		w, res := runWorld(wp, vs.Config{}, nil, nil, nil)
		vc2s, vs2c := messageTypes(w.c2s[0].Written), messageTypes(w.s2c[0].Written)
		r.Execs++
		diff := ""
		switch {
		case strings.Join(rc2s, " ") != strings.Join(vc2s, " "):
			diff = fmt.Sprintf("client->server message types differ: real %v, virtual world %v", rc2s, vc2s)
		case strings.Join(rs2c, " ") != strings.Join(vs2c, " "):
			diff = fmt.Sprintf("server->client message types differ: real %v, virtual world %v", rs2c, vs2c)
		case snapDiff(rdst, res.Dst) != "":
			diff = "resulting files differ: " + snapDiff(rdst, res.Dst)
		case strings.HasPrefix(rsaid, "Saved") != strings.HasPrefix(serverSaid(res.SrvStdout), "Saved"):
			diff = fmt.Sprintf("final message differs: real %q, virtual world %q", clipStr(rsaid, 80), clipStr(serverSaid(res.SrvStdout), 80))
		}
		if diff != "" {
			// the replica (or the world) no longer behaves like the real main: a tool problem, not a verdict
			r.ToolErr = fmt.Sprintf("server-main replica out of step with the real binary for %s: %s", wp.String(), diff)
			return
		}
		r.Replayed++
		if len(r.Samples) < 2 {
			r.Samples = append(r.Samples, fmt.Sprintf("conformance %s: real cmd/%s and the virtual world agree on c2s %v s2c %v and %d files", wp.String(), map[string]string{"up": "trz", "down": "tsz"}[wp.Dir], rc2s, rs2c, len(rdst)))
		}
	}
}
