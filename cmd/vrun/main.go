// vrun is the harness binary: it is built against the instrumented overlay of /repo/trzsz and
// contains the explorer, the coordinator and every check's driver (registered by package trzsz's
// zz_verif_*.go files).
package main

import (
	_ "github.com/trzsz/trzsz-go/trzsz"
	vs "github.com/trzsz/trzsz-go/zzverif/vsched"
)

func main() { vs.Main() }
