// vcheck is the launcher registered in MANIFEST.json: it regenerates the instrumented overlay from
// the current /repo tree (cached by content hash), builds vrun against it and runs the check.
//
//	vcheck setup                     build everything for the current tree, run the pinned suite on the instrumented build
//	vcheck <Cxx> [--tier quick|thorough] [extra args for vrun]
//	vcheck replay <file>
//	vcheck suite                     run the repo's test suite on the instrumented package
package main

import (
	"fmt"
	"os"
	"os/exec"
	"path/filepath"
	"strings"
	"syscall"
	"time"

	"verif/engine/rewrite"
)

const repo = "/repo"

var verif = "/verif"

func goEnv() []string {
	env := os.Environ()
	env = append(env, "GOFLAGS=-mod=mod", "GOPROXY=off", "GOSUMDB=off", "GOTOOLCHAIN=local", "CGO_ENABLED=0")
	return env
}

func die(code int, f string, a ...any) {
	fmt.Fprintf(os.Stderr, f+"\n", a...)
	os.Exit(code)
}

// build returns the path of the vrun binary for the current tree.
func build(verbose bool) (bin, work, hash string) {
	h, err := rewrite.TreeHash(repo, verif)
	if err != nil {
		die(2, "tree hash: %v", err)
	}
	work = filepath.Join(verif, ".work", h)
	bin = filepath.Join(work, "vrun")
	if _, err := os.Stat(bin); err == nil {
		return bin, work, h
	}
	// serialise concurrent builds of the same tree
	os.MkdirAll(filepath.Join(verif, ".work"), 0o755)
	lock, err := os.OpenFile(filepath.Join(verif, ".work", "lock"), os.O_CREATE|os.O_RDWR, 0o644)
	if err == nil {
		syscall.Flock(int(lock.Fd()), syscall.LOCK_EX)
		defer lock.Close()
	}
	if _, err := os.Stat(bin); err == nil {
		return bin, work, h
	}
	// drop stale work dirs (keep disk use bounded)
	if ents, err := os.ReadDir(filepath.Join(verif, ".work")); err == nil {
		for _, e := range ents {
			if e.IsDir() && e.Name() != h {
				if st, err := e.Info(); err == nil && time.Since(st.ModTime()) > 30*time.Minute {
					os.RemoveAll(filepath.Join(verif, ".work", e.Name()))
				}
			}
		}
	}
	t0 := time.Now()
	tmp := work + ".tmp"
	os.RemoveAll(tmp)
	ov, stats, err := rewrite.Generate(repo, verif, filepath.Join(tmp, "src"))
	if err != nil {
		os.RemoveAll(tmp)
		die(2, "instrumentation failed (tool error, not a verdict): %v", err)
	}
	if verbose {
		fmt.Fprintf(os.Stderr, "instrumented %s: %v (%.1fs)\n", h, stats, time.Since(t0).Seconds())
	}
	cmd := exec.Command("go", "build", "-overlay", ov, "-o", filepath.Join(tmp, "vrun"), "./cmd/vrun")
	cmd.Dir = verif
	cmd.Env = goEnv()
	out, err := cmd.CombinedOutput()
	if err != nil {
		// keep the generated sources for diagnosis
		die(2, "build of the instrumented harness failed (tool error, not a verdict):\n%s", out)
	}
	// rewrite overlay paths after the rename
	b, _ := os.ReadFile(ov)
	os.WriteFile(ov, []byte(strings.ReplaceAll(string(b), tmp, work)), 0o644)
	os.RemoveAll(work)
	if err := os.Rename(tmp, work); err != nil {
		die(2, "rename: %v", err)
	}
	if verbose {
		fmt.Fprintf(os.Stderr, "built %s (%.1fs)\n", bin, time.Since(t0).Seconds())
	}
	return bin, work, h
}

func suite(work string) int {
	cmd := exec.Command("go", "test", "-overlay", filepath.Join(work, "src", "overlay.json"), "-vet=off", "-count=1", "./trzsz/")
	cmd.Dir = repo
	cmd.Env = goEnv()
	cmd.Stdout, cmd.Stderr = os.Stdout, os.Stderr
	if err := cmd.Run(); err != nil {
		return 2
	}
	return 0
}

func main() {
	if v := os.Getenv("VERIF_DIR"); v != "" {
		verif = v
	}
	if len(os.Args) < 2 {
		die(2, "usage: vcheck setup | suite | <Cxx> [--tier t] | replay <file>")
	}
	switch os.Args[1] {
	case "setup":
		_, work, _ := build(true)
		os.Exit(suite(work))
	case "suite":
		_, work, _ := build(true)
		os.Exit(suite(work))
	case "replay":
		bin, _, _ := build(false)
		run(bin, append([]string{"replay"}, os.Args[2:]...))
	case "one":
		bin, _, _ := build(false)
		run(bin, append([]string{"one"}, os.Args[2:]...))
	default:
		bin, _, h := build(false)
		args := append([]string{"check", os.Args[1], "--verif", verif, "--tree", h}, os.Args[2:]...)
		run(bin, args)
	}
}

func run(bin string, args []string) {
	cmd := exec.Command(bin, args...)
	cmd.Stdout, cmd.Stderr, cmd.Stdin = os.Stdout, os.Stderr, os.Stdin
	cmd.Env = append(os.Environ(), "VERIF_DIR="+verif)
	err := cmd.Run()
	if err == nil {
		os.Exit(0)
	}
	if ee, ok := err.(*exec.ExitError); ok {
		os.Exit(ee.ExitCode())
	}
	die(2, "%v", err)
}
