#!/usr/bin/env python3
# Generates MANIFEST.json from the table below (kept in one place so that it always validates).
import json
props=[json.loads(l) for l in open('/verif/properties.jsonl')]
checks={
 "C03": dict(category="exploration", design="§3 C03", technique="exhaustive small-scope enumeration (all streams<=n x all segmentations x operation sequences) on the real buffer under the cooperative scheduler, against a cursor reference model",
   text="Every byte stream up to length 6 (quick) / 8 (thorough) over the alphabet that matters, every segmentation and every operation sequence of a fixed menu is run on the real trzszBuffer and compared step by step with a reference cursor model, with blocking made observable by the scheduler. Exhaustive within the bound; nothing is sampled.",
   note="Trusted: the 30-line reference model; the overlay rewriter (tied down by running the pinned suite on the instrumented build at setup). Long streams are not covered beyond the bound."),
 "C13": dict(category="model_checking", design="§3 C13", technique="stateless DFS over all goroutine schedules of the real relay up to a preemption bound (iterative context bounding) under a cooperative scheduler",
   text="The real TrzszRelay (NewTrzszRelay) is driven with scripted, causally gated client and server streams; every schedule of its goroutines with at most 1 preemption (quick) / 2 (thorough), context switches at blocking points being free, is executed and both output streams are compared with a list-shaped reference. This is the level at which the status-read/lock/flush windows are hit deterministically.",
   note="Trusted: scheduling points = channel/mutex/atomic/WaitGroup/stream operations (overlay rewriter); the reference (prefix ++ relay line ++ rest); gates that script causality. Not covered: more preemptions than the bound, plain-memory races (separate -race pass), tmux bypass sink."),
 "C01": dict(category="exploration", design="§3 C01", technique="exhaustive enumeration of configuration vectors (bounded Hamming distance from the default) x source trees x transport segmentations, each executed end to end on the real filter/relay/server code in virtual time",
   text="Every configuration vector within Hamming distance 2 (quick) / 3 (thorough) of the default over 14 dimensions, times a set of source trees and global segmentation policies, plus every single cut position of the whole transcript on a core of configurations and the more-files-than-descriptors trees, is run as a complete transfer through the real NewTrzszFilter, real relays, the fake tunnel and the real recvFiles/sendFiles; safety and liveness oracles compare trees, names and reports.",
   note="Trusted: the ~40-line replica of the tail of TrzMain/TszMain; the scheduler's default (deterministic) schedule - schedule perturbation is the business of C10/C11/C13/C18; zenity/promptui dialogs replaced by preset paths; fork re-exec not run."),
 "C07": dict(category="exploration", design="§3 C07", technique="exhaustive enumeration of prior destination states x incoming name sets x protocols x roles, each a full transfer on the real code, against a reference fresh-name model and full before/after snapshots",
   text="All 4^3 combinations of {absent, file, empty dir, non-empty dir} at name / name.0 / name.1, the full and the gapped name.N series, near-limit name lengths, four incoming sets, protocols, directory mode and both receiving roles, plus the same sources three times in a row, are transferred without -y through the real code; every pre-existing entry is compared (type, size, hash, mode, mtime) and the created entries with the reference mapping.",
   note="Same trusted base as C01. Collisions below a fresh directory cannot happen and are not enumerated."),
 "C08": dict(category="exploration", design="§3 C08", technique="exhaustive enumeration of (source, previous destination) relations (relative length x first differing offset class x block-boundary sizes) as full -y transfers on the real code; comparison block scaled through an overlay-made variable and at its real value",
   text="Every (relative length, first differing offset class, size at a block boundary) combination x protocol {2,3,4} x base64/binary x direction is transferred with -y; the destination must equal the source byte for byte, siblings must be untouched and the payload written must equal size minus the proven common prefix computed by a reference.",
   note="Scaled tier: the same code with kPrefixHashStep turned into a variable (rule R11) and set to 64; the real-constant tier (10 MiB blocks, 10-25 MiB files) always runs with it."),
 "C09": dict(category="exploration", design="§3 C09", technique="exhaustive enumeration of hostile peer-supplied names (component lists up to length 2/3 over a traversal alphabet) x modes x protocols x receiving roles as full transfers by the real sender fed doctored records; before/after snapshot of everything outside the destination",
   text="Every component list over {a, .., ., empty, /, /abs, a/b, a\\b, ../x, ../victim.txt, victim.txt, 300-byte name} is sent as JSON path list, as plain name and as archive entry header by the real sendFiles (doctored records) to the real receiving role on either side, with and without -y and directory mode, protocols 1-4; nothing outside the destination may be created, modified or removed.",
   note="Upload sender = body of TrzszFilter.uploadFiles re-assembled from product functions. Backslash is not a separator on Linux (the fix also rejects os.PathSeparator). Symlinks inside the destination are not in the alphabet."),
 "C02": dict(category="fault_enumeration", design="§3 C02", technique="exhaustive single-fault enumeration (7 byte-level fault kinds x every control-byte offset and a fixed family of payload offsets x both directions), fault pairs in the thorough tier, each a full transfer on the real code in virtual time",
   text="For each configuration the unfaulted transcript is recorded, then every (direction, offset, kind) fault is injected into the connection of a fresh run; whenever a side reports names as saved, those names must be at the destination with exactly the source's content. Thorough adds pairs of faults on every pair of protocol lines and more configurations (protocol 1, archive, resume, escape-all binary, relay, Windows framing).",
   note="Payload interiors are covered at the first/last 24 bytes and every 61st byte of each DATA payload (a fixed family, stated in the evidence), control bytes at every offset. Hangs and crashes provoked by faults are counted here and decided by C11/C12."),
 "C11": dict(category="fault_enumeration", design="§3 C11", technique="exhaustive enumeration of message-level connection faults and local I/O failures at every index, each a full transfer on the real code in virtual time; thorough: all schedules with <=1 deviation (preemption, select alternative, timer landing first) on top of each fault",
   text="For each configuration: silence or write error from every message index on in either direction (after the ACT was delivered) and in both at once, every k-th call of every local I/O seam failing, and the source shrinking on disk before every k-th read. Oracle: no virtual deadlock, both sides return within 2*timeout+3s (+latency, + injected stalls), success only with correct files, and at quiescence no goroutine spawned by transfer code is alive except the connection pumps.",
   note="timeout=3s virtual; a side that never received the configuration is held to its own default (20 s). One open known finding (encoder goroutine stuck in bufInitWG.Wait) is listed in known_findings.json. Real TCP semantics are represented by the fake connection's read/write outcomes."),
}
not_yet="check not built yet in this session (framework under construction; see DESIGN.md §7 order)"
m={"version":1,
 "setup_cmd":"cd /verif && export GOFLAGS=-mod=mod GOPROXY=off GOSUMDB=off GOTOOLCHAIN=local && go build -o bin/vcheck ./cmd/vcheck && bin/vcheck setup",
 "hooks":{"guard":"verif-overlay (no source hooks are committed: instrumentation is generated from the current /repo tree into a go build -overlay; see DESIGN.md §2.1)",
          "enable":"bin/vcheck regenerates /verif/.work/<tree-hash>/src/overlay.json and builds with go build -overlay",
          "baseline_off_cmd":"cd /repo && GOFLAGS=-mod=mod GOPROXY=off GOSUMDB=off go test -vet=off -count=1 ./...",
          "source_commits":[],"add_only":True},
 "engines":[{"name":"vsched","path":"/verif/engine/vsched","serves_properties":sorted(checks),"kind_free_text":"cooperative scheduler with virtual time + replay-prefix DFS explorer with deviation budgets, run on an AST-instrumented overlay of the real package"}],
 "checks":[], "not_applicable":[],
 "notes":"All checks: bin/vcheck <id> [--tier quick|thorough]. Exit 2 = tool error (never a verdict)."}
for p in props:
    i=p["id"]
    if i in checks:
        c=checks[i]
        m["checks"].append({"property_id":i,"quick_cmd":f"cd /verif && bin/vcheck {i} --tier quick","thorough_cmd":f"cd /verif && bin/vcheck {i} --tier thorough",
          "evidence_file":f"/verif/evidence/{i}.json","replay_cmd_template":"cd /verif && bin/vcheck replay {path}","engine":"vsched",
          "level_claimed":{"category":c["category"],"text":c["text"],"design_ref":c["design"]},"level_note":c["note"],"technique":c["technique"]})
    else:
        m["not_applicable"].append({"property_id":i,"reason":not_yet})
json.dump(m,open('/verif/MANIFEST.json','w'),indent=1)
