package vsched

import (
	"errors"
	"io"
	"sync"
	"time"
	"unsafe"
)

// Stamp records where in a pipe's byte log a write started and at what virtual time.
type Stamp struct {
	Off int
	Len int
	At  time.Duration
}

// Pipe is an in-memory byte stream whose blocking is visible to the scheduler. It is what the
// drivers hand to the product instead of OS streams. Chunk boundaries are preserved: by default
// one Write is returned by one Read.
type Pipe struct {
	Name    string
	q       [][]byte
	closedW bool
	closedR bool
	Cap     int // 0: unbounded; otherwise Write blocks while that many bytes are queued
	queued  int

	Written []byte  // everything ever written
	Log     []Stamp // one entry per Write
	Reads   int

	// Gate, if set, must also hold before a Read may complete.
	Gate func() bool
	// Seg decides how many bytes of the head chunk (length n, at most max fit) the next Read
	// returns; nil means min(n, max). Returning k > n coalesces with following chunks up to k.
	Seg func(p *Pipe, n, max int) int
	// WriteErr, if set, may fail the i-th Write (0-based).
	WriteErr func(i int, b []byte) error
	// OnWrite is called after a Write was queued (token held).
	OnWrite func(b []byte)
	// Filter, if set, transforms every written chunk before it is logged and queued (man in the
	// middle); returning nil drops the chunk.
	Filter func(b []byte) []byte
	// Consumed is the number of bytes handed to the reader so far.
	Consumed int
	// Delay, if > 0, makes data readable only that much virtual time after it was written.
	Delay  time.Duration
	ready  []time.Duration
	gates  []func() bool
	OnRead func(whole bool)

	mu   sync.Mutex
	cond *sync.Cond
}

func NewPipe(name string) *Pipe {
	p := &Pipe{Name: name}
	p.cond = sync.NewCond(&p.mu)
	return p
}

func (p *Pipe) obj() uintptr { return uintptr(unsafe.Pointer(p)) }

func (p *Pipe) readable() bool {
	if p.closedR {
		return true
	}
	if len(p.q) > 0 {
		if p.Delay > 0 && len(p.ready) > 0 && Elapsed() < p.ready[0] {
			return false
		}
		return p.Gate == nil || p.Gate()
	}
	return p.closedW
}

var ErrClosedPipe = errors.New("vsched: read/write on closed pipe")

func (p *Pipe) Read(b []byte) (int, error) {
	if G == nil || G.aborting {
		return p.readFree(b)
	}
	Point("pipe.read:"+p.Name, p.obj(), p.readable)
	if p.closedR {
		return 0, ErrClosedPipe
	}
	if len(p.q) == 0 {
		return 0, io.EOF
	}
	if len(b) == 0 {
		return 0, nil
	}
	p.Reads++
	head := p.q[0]
	k := len(head)
	if k > len(b) {
		k = len(b)
	}
	if p.Seg != nil {
		k = p.Seg(p, len(head), len(b))
		if k < 1 {
			k = 1
		}
		if k > len(b) {
			k = len(b)
		}
	}
	n := 0
	for n < k && len(p.q) > 0 {
		if p.Delay > 0 && n > 0 && len(p.ready) > 0 && Elapsed() < p.ready[0] {
			break
		}
		head = p.q[0]
		m := copy(b[n:k], head)
		n += m
		if m == len(head) {
			p.q = p.q[1:]
			if len(p.ready) > 0 {
				p.ready = p.ready[1:]
			}
		} else {
			p.q[0] = head[m:]
		}
		if p.OnRead != nil {
			p.OnRead(m == len(head))
		}
	}
	p.queued -= n
	p.Consumed += n
	return n, nil
}

func (p *Pipe) Write(b []byte) (int, error) {
	if G == nil || G.aborting {
		return p.writeFree(b)
	}
	Point("pipe.write:"+p.Name, p.obj(), func() bool { return p.Cap == 0 || p.queued < p.Cap || p.closedR || p.closedW })
	if p.closedR || p.closedW {
		return 0, ErrClosedPipe
	}
	if p.WriteErr != nil {
		if err := p.WriteErr(len(p.Log), b); err != nil {
			return 0, err
		}
	}
	n0 := len(b)
	if p.Filter != nil {
		b = p.Filter(b)
	}
	p.Log = append(p.Log, Stamp{len(p.Written), len(b), Elapsed()})
	p.Written = append(p.Written, b...)
	if len(b) > 0 {
		p.q = append(p.q, append([]byte(nil), b...))
		if p.Delay > 0 {
			p.ready = append(p.ready, Elapsed()+p.Delay)
			AddTimer(p.Delay, func() {})
		}
		p.queued += len(b)
	}
	if p.OnWrite != nil {
		p.OnWrite(b)
	}
	return n0, nil
}

// Inject queues bytes for the reader without a scheduling point (driver use, token held).
func (p *Pipe) Inject(b []byte) {
	p.Log = append(p.Log, Stamp{len(p.Written), len(b), Elapsed()})
	p.Written = append(p.Written, b...)
	if len(b) > 0 {
		p.q = append(p.q, append([]byte(nil), b...))
		if p.Delay > 0 {
			p.ready = append(p.ready, Elapsed())
		}
		p.queued += len(b)
	}
	if G == nil {
		p.mu.Lock()
		p.cond.Broadcast()
		p.mu.Unlock()
	}
}

func (p *Pipe) Queued() int { return p.queued }

// CloseWrite makes the reader see EOF after the queued data.
func (p *Pipe) CloseWrite() {
	p.mu.Lock()
	p.closedW = true
	p.cond.Broadcast()
	p.mu.Unlock()
}

// Close closes both ends: pending and later reads fail, writes fail.
func (p *Pipe) Close() error {
	if G != nil && !G.aborting {
		Yield("pipe.close:" + p.Name)
	}
	p.mu.Lock()
	p.closedR = true
	p.closedW = true
	p.cond.Broadcast()
	p.mu.Unlock()
	return nil
}

func (p *Pipe) Closed() bool { return p.closedR || p.closedW }

// free-running fall-back (race pass, abort mode)
func (p *Pipe) readFree(b []byte) (int, error) {
	if G != nil && G.aborting {
		return 0, io.EOF
	}
	p.mu.Lock()
	defer p.mu.Unlock()
	for len(p.q) == 0 && !p.closedW && !p.closedR {
		p.cond.Wait()
	}
	if p.closedR {
		return 0, ErrClosedPipe
	}
	if len(p.q) == 0 {
		return 0, io.EOF
	}
	n := copy(b, p.q[0])
	if n == len(p.q[0]) {
		p.q = p.q[1:]
	} else {
		p.q[0] = p.q[0][n:]
	}
	p.queued -= n
	return n, nil
}

func (p *Pipe) writeFree(b []byte) (int, error) {
	if G != nil && G.aborting {
		return len(b), nil
	}
	p.mu.Lock()
	defer p.mu.Unlock()
	if p.closedR || p.closedW {
		return 0, ErrClosedPipe
	}
	p.Log = append(p.Log, Stamp{len(p.Written), len(b), 0})
	p.Written = append(p.Written, b...)
	if len(b) > 0 {
		p.q = append(p.q, append([]byte(nil), b...))
		p.queued += len(b)
	}
	p.cond.Broadcast()
	return len(b), nil
}

// WaitUntil parks the calling thread until cond holds (cond is evaluated by the scheduler).
func WaitUntil(kind string, cond func() bool) {
	if G == nil {
		for !cond() {
			time.Sleep(time.Millisecond)
		}
		return
	}
	Point(kind, 0, cond)
}

// WaitUntilOrTimeout parks until cond holds or d of virtual time has passed; reports whether cond held.
func WaitUntilOrTimeout(kind string, d time.Duration, cond func() bool) bool {
	if G == nil {
		dl := time.Now().Add(d)
		for !cond() {
			if time.Now().After(dl) {
				return false
			}
			time.Sleep(time.Millisecond)
		}
		return true
	}
	expired := false
	tm := AddTimer(d, func() { expired = true })
	Point(kind, 0, func() bool { return expired || cond() })
	tm.Stop()
	return cond()
}

// InjectGated queues a chunk that becomes readable only once gate holds (and the chunks before it
// were read). Used by drivers to script causally ordered arrivals without feeder threads.
func (p *Pipe) InjectGated(b []byte, gate func() bool) {
	p.Inject(b)
	for len(p.gates) < len(p.q)-1 {
		p.gates = append(p.gates, nil)
	}
	p.gates = append(p.gates, gate)
	if p.Gate == nil {
		p.Gate = func() bool {
			// gates are aligned with the tail of q: chunks consumed from the front drop their gate
			if len(p.gates) == 0 {
				return true
			}
			g := p.gates[0]
			return g == nil || g()
		}
		p.OnRead = func(whole bool) {
			if whole && len(p.gates) > 0 {
				p.gates = p.gates[1:]
			} else if !whole && len(p.gates) > 0 {
				p.gates[0] = nil // the rest of a partially read chunk has already arrived
			}
		}
	}
}

// Sink is a write-only stream end that records what it receives.
type Sink struct {
	Name     string
	Written  []byte
	Log      []Stamp
	IsClosed bool
	WriteErr func(i int, b []byte) error
	OnWrite  func(b []byte)
}

func NewSink(name string) *Sink { return &Sink{Name: name} }

func (w *Sink) Write(b []byte) (int, error) {
	if G != nil && !G.aborting {
		Yield("sink.write:" + w.Name)
	}
	if w.WriteErr != nil {
		if err := w.WriteErr(len(w.Log), b); err != nil {
			return 0, err
		}
	}
	w.Log = append(w.Log, Stamp{len(w.Written), len(b), Elapsed()})
	w.Written = append(w.Written, b...)
	if w.OnWrite != nil {
		w.OnWrite(b)
	}
	return len(b), nil
}

func (w *Sink) Close() error { w.IsClosed = true; return nil }

func (w *Sink) Has(sub string) func() bool {
	bs := []byte(sub)
	return func() bool { return bytesContains(w.Written, bs) }
}

func bytesContains(b, sub []byte) bool {
	n := len(sub)
	if n == 0 {
		return true
	}
	for i := 0; i+n <= len(b); i++ {
		if b[i] == sub[0] && string(b[i:i+n]) == string(sub) {
			return true
		}
	}
	return false
}

// GatedReader reads from a pipe until closed() holds; then it reports EOF (a process whose stdin
// goes away when it exits).
type GatedReader struct {
	P      *Pipe
	Closed func() bool
}

func (g *GatedReader) Read(b []byte) (int, error) {
	if G == nil || G.aborting {
		return 0, io.EOF
	}
	Point("pipe.read:"+g.P.Name, g.P.obj(), func() bool { return g.Closed() || g.P.readable() })
	if g.Closed() {
		return 0, io.EOF
	}
	G.evaluating = true // the pipe's own point was just taken
	n, err := g.P.Read(b)
	G.evaluating = false
	return n, err
}

// ---- io.Pipe stand-in (rewrite rule R14) ----
//
// The product creates one io.Pipe: between the input pump and the stop/continue menu. A real
// io.Pipe blocks its writer outside the scheduler; this stand-in is a (buffered) Pipe with the
// closing rules of io.Pipe. Without a scheduler it behaves like any free-running Pipe.

type ioPipeState struct {
	rclosed, wclosed bool
}

// PipeReader stands in for *io.PipeReader.
type PipeReader struct {
	p  *Pipe
	st *ioPipeState
}

// PipeWriter stands in for *io.PipeWriter.
type PipeWriter struct {
	p  *Pipe
	st *ioPipeState
}

// IOPipe stands in for io.Pipe().
func IOPipe() (*PipeReader, *PipeWriter) {
	p, st := NewPipe("iopipe"), &ioPipeState{}
	return &PipeReader{p, st}, &PipeWriter{p, st}
}

func (w *PipeWriter) Write(b []byte) (int, error) {
	if w.st.rclosed || w.st.wclosed {
		return 0, io.ErrClosedPipe
	}
	return w.p.Write(b)
}

func (w *PipeWriter) Close() error {
	w.st.wclosed = true
	w.p.CloseWrite()
	return nil
}

func (w *PipeWriter) CloseWithError(err error) error { return w.Close() }

func (r *PipeReader) Read(b []byte) (int, error) {
	if r.st.rclosed {
		return 0, io.ErrClosedPipe
	}
	return r.p.Read(b)
}

func (r *PipeReader) Close() error {
	r.st.rclosed = true
	r.p.CloseWrite() // wakes a blocked reader
	return nil
}

func (r *PipeReader) CloseWithError(err error) error { return r.Close() }

// PromptRun is the model of promptui.Select.Run used under rule R14: the menu is drawn on stdout
// and the keys the product's transformPromptInput produces are interpreted as the library does
// (Ctrl-N / Ctrl-P move within the list without wrapping, Enter confirms); a closed or failing
// stdin ends the prompt with its error.
func PromptRun(stdin io.Reader, stdout io.Writer, items any) (int, string, error) {
	n := 0
	labels, _ := items.([]string)
	n = len(labels)
	_, _ = stdout.Write([]byte("? menu\r\n"))
	idx := 0
	buf := make([]byte, 64)
	for {
		k, err := stdin.Read(buf)
		for _, c := range buf[:k] {
			switch c {
			case '\x0e':
				if idx < n-1 {
					idx++
				}
			case '\x10':
				if idx > 0 {
					idx--
				}
			case '\r', '\n':
				_, _ = stdout.Write([]byte("\r\n"))
				if idx < n {
					return idx, labels[idx], nil
				}
				return idx, "", nil
			case '\x03':
				return 0, "", errors.New("^C")
			}
		}
		if err != nil {
			return 0, "", err
		}
	}
}
