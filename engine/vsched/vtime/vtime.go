// Package vtime replaces "time" in the instrumented trzsz package: same names, virtual clock
// under a scheduler, the real thing otherwise.
package vtime

import (
	"time"

	vs "github.com/trzsz/trzsz-go/zzverif/vsched"
)

type Time = time.Time
type Duration = time.Duration
type Month = time.Month
type Location = time.Location

const (
	Nanosecond  = time.Nanosecond
	Microsecond = time.Microsecond
	Millisecond = time.Millisecond
	Second      = time.Second
	Minute      = time.Minute
	Hour        = time.Hour
	RFC3339     = time.RFC3339
)

var UTC = time.UTC
var Local = time.Local

func Now() Time                                { return vs.Now() }
func Since(t Time) Duration                    { return vs.Now().Sub(t) }
func Until(t Time) Duration                    { return t.Sub(vs.Now()) }
func Sleep(d Duration)                         { vs.Sleep(d) }
func UnixMilli(ms int64) Time                  { return time.UnixMilli(ms) }
func UnixMicro(us int64) Time                  { return time.UnixMicro(us) }
func Unix(s, ns int64) Time                    { return time.Unix(s, ns) }
func ParseDuration(s string) (Duration, error) { return time.ParseDuration(s) }
func Date(y int, m Month, d, h, mi, s, ns int, l *Location) Time {
	return time.Date(y, m, d, h, mi, s, ns, l)
}

func After(d Duration) <-chan Time {
	if !vs.Active() {
		if vs.Aborting() {
			return make(chan Time)
		}
		return time.After(d)
	}
	ch := make(chan Time, 1)
	vs.AddTimer(d, func() {
		select {
		case ch <- vs.Now():
		default:
		}
	})
	return ch
}

type Timer struct {
	C  <-chan Time
	c  chan Time
	t  *time.Timer
	vt *vs.VTimer
	f  func()
	fl map[string]bool
}

func NewTimer(d Duration) *Timer {
	if !vs.Active() {
		if vs.Aborting() {
			return &Timer{C: make(chan Time)}
		}
		t := time.NewTimer(d)
		return &Timer{C: t.C, t: t}
	}
	ch := make(chan Time, 1)
	tm := &Timer{C: ch, c: ch}
	tm.vt = vs.AddTimer(d, tm.fire)
	return tm
}

func (t *Timer) fire() {
	if t.f != nil {
		vs.GoWithFlags("afterfunc", t.fl, t.f)
		return
	}
	select {
	case t.c <- vs.Now():
	default:
	}
}

func AfterFunc(d Duration, f func()) *Timer {
	if !vs.Active() {
		if vs.Aborting() {
			return &Timer{}
		}
		return &Timer{t: time.AfterFunc(d, f)}
	}
	tm := &Timer{f: f, fl: vs.CurFlags()}
	tm.vt = vs.AddTimer(d, tm.fire)
	return tm
}

func (t *Timer) Stop() bool {
	if t.vt != nil {
		if vs.Active() {
			vs.Yield("timer.stop")
		}
		return t.vt.Stop()
	}
	if t.t != nil {
		return t.t.Stop()
	}
	return false
}

func (t *Timer) Reset(d Duration) bool {
	if t.vt != nil {
		was := t.vt.Stop()
		if vs.Active() {
			t.vt = vs.AddTimer(d, t.fire)
		}
		return was
	}
	if t.t != nil {
		return t.t.Reset(d)
	}
	return false
}
