package vsched

import (
	"bufio"
	"encoding/json"
	"fmt"
	"io"
	"os"
	"os/exec"
	"path/filepath"
	"regexp"
	"runtime"
	"runtime/debug"
	"runtime/pprof"
	"sort"
	"strconv"
	"strings"
	"sync"
	"sync/atomic"
	"time"
)

// Job is one independent, deterministic unit of work of a check.
type Job struct {
	ID     int             `json:"id"`
	Name   string          `json:"name"`
	Params json.RawMessage `json:"params,omitempty"`
	// Deadline (unix seconds) after which the job should stop and report what it covered.
	Deadline int64      `json:"deadline,omitempty"`
	Tier     string     `json:"tier,omitempty"`
	Replay   *Violation `json:"replay,omitempty"`
}

func (j Job) Decode(v any) {
	if len(j.Params) > 0 {
		if err := json.Unmarshal(j.Params, v); err != nil {
			panic(err)
		}
	}
}

func MkJob(name string, params any) Job {
	b, _ := json.Marshal(params)
	return Job{Name: name, Params: b}
}

// JobResult is what a worker reports per job.
type JobResult struct {
	JobID      int                `json:"job_id"`
	Name       string             `json:"name"`
	Execs      int64              `json:"execs"`      // executions / cases evaluated
	Nontrivial int64              `json:"nontrivial"` // distinct non-trivial cases (by the check's rule)
	Steps      int64              `json:"steps"`      // scheduler steps (transitions)
	States     []uint64           `json:"states"`     // distinct state fingerprints
	Outcomes   map[string]int64   `json:"outcomes"`   // distinct observable outcomes
	Violations []Violation        `json:"violations"`
	Capped     string             `json:"capped,omitempty"`
	MaxDev     int                `json:"max_dev"`
	Replayed   int64              `json:"replayed"` // executions replayed for the determinism guard
	Samples    []string           `json:"samples,omitempty"`
	Extra      map[string]float64 `json:"extra,omitempty"` // max-merged numeric observations
	Notes      []string           `json:"notes,omitempty"`
	ToolErr    string             `json:"tool_err,omitempty"`
	Died       string             `json:"died,omitempty"`
	WallS      float64            `json:"wall_s"`
	DevHist    map[string]int64   `json:"dev_hist,omitempty"`
}

func (r *JobResult) AddStats(st *Stats) {
	r.Execs += st.Execs
	r.Steps += st.Steps
	for h := range st.States {
		r.States = append(r.States, h)
	}
	if r.Outcomes == nil {
		r.Outcomes = map[string]int64{}
	}
	for k, v := range st.Outcomes {
		r.Outcomes[k] += v
	}
	r.Violations = append(r.Violations, st.Violations...)
	if st.Capped != "" {
		r.Capped = st.Capped
	}
	if st.MaxDev > r.MaxDev {
		r.MaxDev = st.MaxDev
	}
	r.Replayed += st.Replayed
	for _, s := range st.Samples {
		if len(r.Samples) < 4 {
			r.Samples = append(r.Samples, s)
		}
	}
	if st.ToolErr != "" {
		r.ToolErr = st.ToolErr
	}
	if r.DevHist == nil {
		r.DevHist = map[string]int64{}
	}
	for k, v := range st.DevHist {
		r.DevHist[k] += v
	}
}

func (r *JobResult) Max(key string, v float64) {
	if r.Extra == nil {
		r.Extra = map[string]float64{}
	}
	if v > r.Extra[key] {
		r.Extra[key] = v
	}
}

// Violate records a violation found by a sequential enumerator.
func (r *JobResult) Violate(sig, desc string, detail any) {
	for _, v := range r.Violations {
		if v.Signature == sig {
			return
		}
	}
	if len(r.Violations) < 8 {
		r.Violations = append(r.Violations, Violation{Desc: desc, Signature: sig, Detail: detail, Exec: r.Execs})
	}
}

// Check is one property's checker.
type Check struct {
	ID          string
	Level       string // evidence level
	Rule        string
	Assumptions []string
	// Jobs lists the work for a tier.
	Jobs func(tier string) []Job
	// Run executes one job (in a worker process).
	Run func(j Job) *JobResult
	// QuickBudget / ThoroughBudget: wall-clock budget in seconds handed to jobs as a deadline.
	QuickBudget, ThoroughBudget int
	// DiedIsViolation: a worker that dies while running a job counts as a crash of the product.
	DiedIsViolation bool
	// ModelChecking evidence wants traces validated against the implementation: explain.
	TraceNote string
}

var registry = map[string]*Check{}

func Register(c *Check) { registry[c.ID] = c }

type knownFinding struct {
	Property  string `json:"property"`
	Signature string `json:"signature"` // regular expression matched against Violation.Signature
	What      string `json:"what"`
	Status    string `json:"status"` // "open" or "fixed"
	Commit    string `json:"commit,omitempty"`
}

func loadKnown(path string) []knownFinding {
	b, err := os.ReadFile(path)
	if err != nil {
		return nil
	}
	var f struct {
		Findings []knownFinding `json:"findings"`
	}
	if err := json.Unmarshal(b, &f); err != nil {
		fmt.Fprintln(os.Stderr, "known_findings.json:", err)
		os.Exit(2)
	}
	return f.Findings
}

var knownCache []knownFinding
var knownLoaded bool

// IsKnown reports whether a violation signature of a property is listed as an open known finding
// (workers use it to keep exploring past listed findings instead of stopping at them).
func IsKnown(property, signature string) bool {
	if !knownLoaded {
		dir := os.Getenv("VERIF_DIR")
		if dir == "" {
			dir = "/verif"
		}
		knownCache = loadKnown(filepath.Join(dir, "known_findings.json"))
		knownLoaded = true
	}
	for _, k := range knownCache {
		if k.Property == property && k.Status != "fixed" {
			if ok, _ := regexp.MatchString(k.Signature, signature); ok {
				return true
			}
		}
	}
	return false
}

// Main is the entry point of the vrun binary.
func Main() {
	if len(os.Args) < 2 {
		fmt.Fprintln(os.Stderr, "usage: vrun check <id> [--tier quick|thorough] | worker <id> | replay <file> | list")
		os.Exit(2)
	}
	switch os.Args[1] {
	case "list":
		var ids []string
		for id := range registry {
			ids = append(ids, id)
		}
		sort.Strings(ids)
		fmt.Println(strings.Join(ids, " "))
	case "worker":
		workerMain(os.Args[2])
	case "check":
		os.Exit(checkMain(os.Args[2], os.Args[3:]))
	case "replay":
		os.Exit(replayMain(os.Args[2]))
	case "one": // vrun one <check> <params-json> [choices-json]: run a single job verbosely (development aid)
		runtime.GOMAXPROCS(1)
		c := registry[os.Args[2]]
		j := Job{Name: "one", Params: json.RawMessage(os.Args[3]), Replay: &Violation{}}
		if len(os.Args) > 4 {
			json.Unmarshal([]byte(os.Args[4]), &j.Replay.Choices)
		}
		os.Setenv("VERIF_DEBUG", "1")
		setWorkerPath()
		if tmp, err := os.MkdirTemp("/dev/shm", "vrf-one-"); err == nil {
			os.Setenv("TMPDIR", tmp)
			defer os.RemoveAll(tmp)
		}
		r := c.Run(j)
		for _, n := range r.Notes {
			fmt.Println(n)
		}
		for _, v := range r.Violations {
			fmt.Println("VIOLATION:", v.Desc)
		}
		fmt.Printf("execs=%d steps=%d toolerr=%q\n", r.Execs, r.Steps, r.ToolErr)
	default:
		fmt.Fprintln(os.Stderr, "unknown command", os.Args[1])
		os.Exit(2)
	}
}

// setWorkerPath gives in-process runs (one, replay) the same PATH as worker processes.
func setWorkerPath() {
	vdir := os.Getenv("VERIF_DIR")
	if vdir == "" {
		vdir = "/verif"
	}
	os.Setenv("PATH", vdir+"/harness/fakebin")
	os.Unsetenv("TMUX")
}

func workerMain(id string) {
	runtime.GOMAXPROCS(1)
	debug.SetGCPercent(1500)
	debug.SetMemoryLimit(1 << 30)
	if pf := os.Getenv("VERIF_PROF"); pf != "" {
		f, _ := os.Create(pf)
		pprof.StartCPUProfile(f)
		defer pprof.StopCPUProfile()
	}
	c := registry[id]
	if c == nil {
		fmt.Fprintln(os.Stderr, "unknown check", id)
		os.Exit(2)
	}
	in := bufio.NewReaderSize(os.Stdin, 1<<20)
	out := bufio.NewWriter(os.Stdout)
	for {
		line, err := in.ReadBytes('\n')
		if len(line) > 0 {
			var j Job
			if e := json.Unmarshal(line, &j); e != nil {
				fmt.Fprintln(os.Stderr, "bad job:", e)
				os.Exit(2)
			}
			t0 := time.Now()
			r := c.Run(j)
			r.JobID, r.Name = j.ID, j.Name
			r.WallS = time.Since(t0).Seconds()
			b, _ := json.Marshal(r)
			out.Write(b)
			out.WriteByte('\n')
			out.Flush()
		}
		if err != nil {
			return
		}
	}
}

type evidence struct {
	PropertyID  string         `json:"property_id"`
	Tier        string         `json:"tier"`
	Seed        int            `json:"seed"`
	Level       string         `json:"level"`
	Coverage    map[string]any `json:"coverage"`
	Assumptions []string       `json:"assumptions"`
	WallS       float64        `json:"wall_s"`
	Violations  int            `json:"violations"`
}

func checkMain(id string, args []string) int {
	c := registry[id]
	if c == nil {
		fmt.Fprintln(os.Stderr, "unknown check", id)
		return 2
	}
	tier := os.Getenv("VERIF_TIER")
	workers := runtime.NumCPU()
	verif := "/verif"
	treeHash := ""
	onlyJob := ""
	for i := 0; i < len(args); i++ {
		switch args[i] {
		case "--tier":
			i++
			tier = args[i]
		case "--workers":
			i++
			workers, _ = strconv.Atoi(args[i])
		case "--verif":
			i++
			verif = args[i]
		case "--tree":
			i++
			treeHash = args[i]
		case "--job":
			i++
			onlyJob = args[i]
		}
	}
	if tier != "thorough" {
		tier = "quick"
	}
	seed, _ := strconv.Atoi(os.Getenv("VERIF_SEED"))
	t0 := time.Now()
	jobs := c.Jobs(tier)
	if onlyJob != "" {
		var sel []Job
		for _, j := range jobs {
			if strings.Contains(j.Name, onlyJob) {
				sel = append(sel, j)
			}
		}
		jobs = sel
	}
	budget := c.QuickBudget
	if tier == "thorough" {
		budget = c.ThoroughBudget
	}
	if b := os.Getenv("VERIF_BUDGET_S"); b != "" {
		budget, _ = strconv.Atoi(b)
	}
	var deadline int64
	if budget > 0 {
		deadline = time.Now().Add(time.Duration(budget) * time.Second).Unix()
	}
	for i := range jobs {
		jobs[i].ID = i
		jobs[i].Deadline = deadline
		jobs[i].Tier = tier
	}
	if workers > len(jobs) {
		workers = len(jobs)
	}
	if workers < 1 {
		workers = 1
	}
	tmp, err := os.MkdirTemp("/dev/shm", "vrf-")
	if err != nil {
		tmp, _ = os.MkdirTemp("", "vrf-")
	}
	os.Setenv("TMPDIR", tmp)
	defer os.RemoveAll(tmp)
	results := runJobs(id, jobs, workers)
	os.RemoveAll(tmp)

	// merge
	known := loadKnown(filepath.Join(verif, "known_findings.json"))
	states := map[uint64]struct{}{}
	outcomes := map[string]int64{}
	var execs, nontriv, steps, replayed int64
	var samples []any
	var capped []string
	var notes []string
	extra := map[string]float64{}
	devhist := map[string]int64{}
	maxDev := 0
	exit := 0
	nviol := 0
	printedKnown := map[string]bool{}
	var allViol []string
	os.MkdirAll(filepath.Join(verif, "replays"), 0o755)
	for _, r := range results {
		if os.Getenv("VERIF_VERBOSE") != "" {
			fmt.Printf("  job %-60s execs=%-9d steps=%-11d outcomes=%d wall=%.1fs %s\n", r.Name, r.Execs, r.Steps, len(r.Outcomes), r.WallS, r.Capped)
		}
		execs += r.Execs
		nontriv += r.Nontrivial
		steps += r.Steps
		replayed += r.Replayed
		for _, h := range r.States {
			states[h] = struct{}{}
		}
		for k, v := range r.Outcomes {
			outcomes[k] += v
		}
		for k, v := range r.Extra {
			if v > extra[k] {
				extra[k] = v
			}
		}
		for k, v := range r.DevHist {
			devhist[k] += v
		}
		if r.MaxDev > maxDev {
			maxDev = r.MaxDev
		}
		for _, s := range r.Samples {
			if len(samples) < 8 {
				samples = append(samples, r.Name+": "+s)
			}
		}
		if r.Capped != "" {
			capped = append(capped, r.Name+":"+r.Capped)
		}
		for _, n := range r.Notes {
			if len(notes) < 20 {
				notes = append(notes, r.Name+": "+n)
			}
		}
		if r.ToolErr != "" {
			fmt.Printf("TOOL-ERROR check=%s job=%s: %s\n", id, r.Name, r.ToolErr)
			exit = 2
		}
		if r.Died != "" {
			if c.DiedIsViolation {
				r.Violations = append(r.Violations, Violation{Desc: "worker process died: " + clip(r.Died, 600), Signature: "died:" + r.Name})
			} else {
				fmt.Printf("TOOL-ERROR check=%s job=%s: worker died: %s\n", id, r.Name, clip(r.Died, 2000))
				exit = 2
			}
		}
		for _, v := range r.Violations {
			matched := false
			for _, k := range known {
				if k.Property != id || k.Status == "fixed" {
					continue
				}
				if ok, _ := regexp.MatchString(k.Signature, v.Signature); ok {
					matched = true
					if !printedKnown[k.Signature] {
						printedKnown[k.Signature] = true
						fmt.Printf("KNOWN-FINDING: property=%s %s\n", id, k.What)
					}
					break
				}
			}
			if matched {
				continue
			}
			nviol++
			allViol = append(allViol, r.Name+" :: "+v.Desc)
			if nviol > 5 {
				continue // counted, not printed: the first five replays are enough to act on
			}
			job := jobs[r.JobID]
			vv := v
			job.Replay = &vv
			job.Deadline = 0
			b, _ := json.MarshalIndent(map[string]any{"check": id, "job": job, "violation": v, "tree": treeHash}, "", " ")
			path := filepath.Join(verif, "replays", fmt.Sprintf("%s-%x.json", id, fnv(r.Name+v.Signature)&0xffffffff))
			os.WriteFile(path, b, 0o644)
			fmt.Printf("VIOLATION property=%s replay=%s\n", id, path)
			fmt.Printf("  job=%s\n  %s\n", r.Name, clip(v.Desc, 1500))
			if exit == 0 {
				exit = 1
			}
		}
	}
	toolErr := exit == 2
	if nviol > 0 {
		// reproduced violations stand on their own, also when another job of the run could not be evaluated
		// (its TOOL-ERROR line is printed above and the run is reported as not exhaustive)
		exit = 1
	}
	os.Remove(filepath.Join(verif, ".work", id+"-violations.txt"))
	if len(allViol) > 0 {
		os.WriteFile(filepath.Join(verif, ".work", id+"-violations.txt"), []byte(strings.Join(allViol, "\n")+"\n"), 0o644)
	}
	if len(samples) == 0 {
		for _, r := range results {
			if len(samples) < 3 {
				samples = append(samples, fmt.Sprintf("job %q: %d evaluations", r.Name, r.Execs))
			}
		}
	}
	wall := time.Since(t0).Seconds()
	exhaustive := len(capped) == 0 && exit != 2 && !toolErr
	cov := map[string]any{
		"evaluations":                   execs,
		"distinct_nontrivial":           nontriv,
		"rule":                          c.Rule,
		"samples":                       samples,
		"states":                        len(states),
		"transitions":                   steps,
		"traces_validated_against_impl": replayed,
		"exhaustive":                    exhaustive,
		"distinct_outcomes":             len(outcomes),
		"outcomes_top":                  (&Stats{Outcomes: outcomes}).OutcomeSummary(6),
		"jobs":                          len(jobs),
		"max_deviations_explored":       maxDev,
		"deviations_by_kind":            devhist,
		"caps_hit":                      capped,
		"observed":                      extra,
		"notes":                         notes,
		"tree":                          treeHash,
	}
	if c.TraceNote != "" {
		cov["traces_validated_note"] = c.TraceNote
	}
	if c.Level != "model_checking" {
		delete(cov, "states")
		delete(cov, "transitions")
		if replayed == 0 {
			delete(cov, "traces_validated_against_impl")
		}
	}
	ev := evidence{PropertyID: id, Tier: tier, Seed: seed, Level: c.Level, Coverage: cov, Assumptions: c.Assumptions, WallS: wall, Violations: nviol}
	if exit != 2 {
		b, _ := json.MarshalIndent(ev, "", " ")
		os.MkdirAll(filepath.Join(verif, "evidence"), 0o755)
		if err := os.WriteFile(filepath.Join(verif, "evidence", id+".json"), b, 0o644); err != nil {
			fmt.Fprintln(os.Stderr, err)
			return 2
		}
	}
	fmt.Printf("%s tier=%s jobs=%d evaluations=%d nontrivial=%d states=%d transitions=%d outcomes=%d maxdev=%d violations=%d exhaustive=%v wall=%.1fs\n",
		id, tier, len(jobs), execs, nontriv, len(states), steps, len(outcomes), maxDev, nviol, exhaustive, wall)
	if len(capped) > 0 {
		fmt.Printf("  caps hit: %s\n", clip(strings.Join(capped, " "), 400))
	}
	return exit
}

type workerProc struct {
	cmd    *exec.Cmd
	in     io.WriteCloser
	out    *bufio.Reader
	errBuf *tailBuf
}

type tailBuf struct {
	mu   sync.Mutex
	head []byte
	b    []byte
}

func (t *tailBuf) Write(p []byte) (int, error) {
	t.mu.Lock()
	if len(t.head) < 1500 {
		n := 1500 - len(t.head)
		if n > len(p) {
			n = len(p)
		}
		t.head = append(t.head, p[:n]...)
	}
	t.b = append(t.b, p...)
	if len(t.b) > 4096 {
		t.b = t.b[len(t.b)-4096:]
	}
	t.mu.Unlock()
	return len(p), nil
}

func startWorker(id string) (*workerProc, error) {
	self, _ := os.Executable()
	memKB := 6 * 1024 * 1024
	if m := os.Getenv("VERIF_WORKER_MEM_KB"); m != "" {
		memKB, _ = strconv.Atoi(m)
	}
	cmd := exec.Command("/bin/sh", "-c", fmt.Sprintf("ulimit -v %d; exec %q worker %q", memKB, self, id))
	vdir := os.Getenv("VERIF_DIR")
	if vdir == "" {
		vdir = "/verif"
	}
	env := []string{"PATH=" + vdir + "/harness/fakebin", "HOME=/nonexistent", "GOMAXPROCS=1", "LANG=C.UTF-8", "TMPDIR=" + os.Getenv("TMPDIR"),
		"VERIF_DEBUG=" + os.Getenv("VERIF_DEBUG"), "VERIF_DIR=" + vdir, "VERIF_PROF=" + os.Getenv("VERIF_PROF")}
	cmd.Env = env
	in, err := cmd.StdinPipe()
	if err != nil {
		return nil, err
	}
	out, err := cmd.StdoutPipe()
	if err != nil {
		return nil, err
	}
	tb := &tailBuf{}
	cmd.Stderr = tb
	if err := cmd.Start(); err != nil {
		return nil, err
	}
	return &workerProc{cmd, in, bufio.NewReaderSize(out, 1<<20), tb}, nil
}

// hangGrace is how long past its (cooperative) deadline a job may stay silent before its worker is killed.
const hangGrace = 300 * time.Second

func runJobs(id string, jobs []Job, workers int) []*JobResult {
	results := make([]*JobResult, len(jobs))
	var mu sync.Mutex
	next := 0
	take := func() int {
		mu.Lock()
		defer mu.Unlock()
		if next >= len(jobs) {
			return -1
		}
		next++
		return next - 1
	}
	var wg sync.WaitGroup
	for w := 0; w < workers; w++ {
		wg.Add(1)
		go func() {
			defer wg.Done()
			var wp *workerProc
			defer func() {
				if wp != nil {
					wp.in.Close()
					wp.cmd.Wait()
				}
			}()
			for {
				i := take()
				if i < 0 {
					return
				}
				for attempt := 0; ; attempt++ {
					if wp == nil {
						var err error
						wp, err = startWorker(id)
						if err != nil {
							results[i] = &JobResult{JobID: i, Name: jobs[i].Name, ToolErr: "cannot start worker: " + err.Error()}
							break
						}
					}
					b, _ := json.Marshal(jobs[i])
					wp.in.Write(append(b, '\n'))
					// watchdog: jobs honour their deadline cooperatively; a worker that is still silent long after it
					// is stuck where no scheduling point is reached (a product loop that spins on real I/O, say)
					var hung atomic.Bool
					var watchdog *time.Timer
					if jobs[i].Deadline > 0 {
						d := time.Until(time.Unix(jobs[i].Deadline, 0))
						if d < 0 {
							d = 0
						}
						cur := wp
						watchdog = time.AfterFunc(d+hangGrace, func() {
							hung.Store(true)
							cur.cmd.Process.Kill()
						})
					}
					line, err := wp.out.ReadBytes('\n')
					if watchdog != nil {
						watchdog.Stop()
					}
					if err == nil {
						var r JobResult
						if e := json.Unmarshal(line, &r); e != nil {
							results[i] = &JobResult{JobID: i, Name: jobs[i].Name, ToolErr: "bad worker result: " + e.Error()}
						} else {
							results[i] = &r
						}
						break
					}
					// worker died
					wp.in.Close()
					wp.cmd.Wait()
					wp.errBuf.mu.Lock()
					tail := string(wp.errBuf.head) + "\n[...]\n" + string(wp.errBuf.b)
					wp.errBuf.mu.Unlock()
					wp = nil
					if hung.Load() {
						results[i] = &JobResult{JobID: i, Name: jobs[i].Name, Died: fmt.Sprintf("hung: the job was still running %v after its deadline and was killed (no scheduling point is reached any more: a loop that spins without synchronising, or a blocking call outside the scheduler)\n", hangGrace) + tail}
						break
					}
					if attempt >= 1 {
						results[i] = &JobResult{JobID: i, Name: jobs[i].Name, Died: tail}
						break
					}
				}
			}
		}()
	}
	wg.Wait()
	return results
}

func replayMain(path string) int {
	b, err := os.ReadFile(path)
	if err != nil {
		fmt.Fprintln(os.Stderr, err)
		return 2
	}
	var f struct {
		Check string `json:"check"`
		Job   Job    `json:"job"`
	}
	if err := json.Unmarshal(b, &f); err != nil {
		fmt.Fprintln(os.Stderr, err)
		return 2
	}
	c := registry[f.Check]
	if c == nil {
		fmt.Fprintln(os.Stderr, "unknown check", f.Check)
		return 2
	}
	runtime.GOMAXPROCS(1)
	os.Setenv("VERIF_DEBUG", "1")
	setWorkerPath()
	if tmp, err := os.MkdirTemp("/dev/shm", "vrf-replay-"); err == nil {
		os.Setenv("TMPDIR", tmp)
		defer os.RemoveAll(tmp)
	}
	r := c.Run(f.Job)
	for _, n := range r.Notes {
		fmt.Println(n)
	}
	if len(r.Violations) > 0 {
		for _, v := range r.Violations {
			fmt.Printf("VIOLATION property=%s replay=%s\n  %s\n", f.Check, path, v.Desc)
		}
		return 1
	}
	fmt.Println("replay: no violation")
	return 0
}
