package vsched

import (
	"errors"
	"io"
	"net"
	"time"
)

// Fake TCP for the tunnel: listeners and connections whose blocking is visible to the scheduler.

type netState struct {
	nextPort  int
	listeners map[int]*Listener
	Conns     []*Conn // every connection end ever created, in creation order
}

func netOf(s *Sched) *netState {
	if n, ok := s.Locals["net"].(*netState); ok {
		return n
	}
	n := &netState{nextPort: 50001, listeners: map[int]*Listener{}}
	s.Locals["net"] = n
	return n
}

type Listener struct {
	Port     int
	pending  []*Conn
	closed   bool
	Accepted []*Conn
}

// Listen creates a listener on a fresh port. Returns (nil, 0) when no scheduler is installed, so that
// the product falls back to the real network.
func Listen() (net.Listener, int) {
	s := G
	if s == nil || s.aborting {
		return nil, 0
	}
	n := netOf(s)
	l := &Listener{Port: n.nextPort}
	n.nextPort++
	n.listeners[l.Port] = l
	return l, l.Port
}

func (l *Listener) Accept() (net.Conn, error) {
	if G == nil || G.aborting {
		return nil, errors.New("listener closed")
	}
	Point("net.accept", 0, func() bool { return len(l.pending) > 0 || l.closed })
	if l.closed {
		return nil, errors.New("use of closed network connection")
	}
	i := Choose("accept-order", len(l.pending))
	c := l.pending[i]
	l.pending = append(l.pending[:i:i], l.pending[i+1:]...)
	l.Accepted = append(l.Accepted, c)
	return c, nil
}

func (l *Listener) Close() error {
	if G != nil && !G.aborting {
		Yield("net.listener.close")
	}
	if !l.closed {
		l.closed = true
		for _, c := range l.pending {
			c.closeBoth()
		}
		l.pending = nil
		if G != nil {
			delete(netOf(G).listeners, l.Port)
		}
	}
	return nil
}

func (l *Listener) Addr() net.Addr { return &net.TCPAddr{IP: net.IPv4(127, 0, 0, 1), Port: l.Port} }

// Conn is one end of a fake connection.
type Conn struct {
	Name   string
	rd, wr *Pipe
	peer   *Conn
	Closed bool
	Tag    string // set by drivers to tell connections apart
}

// Dial connects to the listener on port; nil if nobody listens (connection refused).
func Dial(port int, tag string) *Conn {
	s := G
	if s == nil || s.aborting {
		return nil
	}
	Yield("net.dial")
	n := netOf(s)
	l := n.listeners[port]
	if l == nil || l.closed {
		return nil
	}
	a2b, b2a := NewPipe("conn:"+tag+":c2s"), NewPipe("conn:"+tag+":s2c")
	cli := &Conn{Name: tag + ".client", rd: b2a, wr: a2b, Tag: tag}
	srv := &Conn{Name: tag + ".server", rd: a2b, wr: b2a, Tag: tag}
	cli.peer, srv.peer = srv, cli
	if OnDial != nil {
		OnDial(cli, srv)
	}
	l.pending = append(l.pending, srv)
	n.Conns = append(n.Conns, cli, srv)
	return cli
}

// OnDial, if set by a driver, sees every new connection pair (to install filters on its pipes).
var OnDial func(cli, srv *Conn)

// NetConns lists every connection end created in this execution.
func NetConns() []*Conn {
	if G == nil {
		return nil
	}
	return netOf(G).Conns
}

func (c *Conn) Read(b []byte) (int, error) {
	n, err := c.rd.Read(b)
	if err == ErrClosedPipe {
		if c.Closed {
			return n, errors.New("use of closed network connection")
		}
		return n, io.EOF
	}
	return n, err
}

func (c *Conn) Write(b []byte) (int, error) {
	if c.Closed {
		if G != nil && !G.aborting {
			Yield("net.write")
		}
		return 0, errors.New("use of closed network connection")
	}
	n, err := c.wr.Write(b)
	if err != nil {
		return n, errors.New("write: broken pipe")
	}
	return n, nil
}

func (c *Conn) closeBoth() {
	c.Closed = true
	c.rd.closedR = true // own reads fail
	c.rd.closedW = true
	c.wr.closedW = true // the peer sees EOF after what was queued
}

func (c *Conn) Close() error {
	if G != nil && !G.aborting {
		Yield("net.close:" + c.Name)
	}
	if !c.Closed {
		c.closeBoth()
	}
	return nil
}

// Sent returns everything this end has written; Received everything written to it.
func (c *Conn) Sent() []byte     { return c.wr.Written }
func (c *Conn) Received() []byte { return c.rd.Written }
func (c *Conn) InPipe() *Pipe    { return c.rd }
func (c *Conn) OutPipe() *Pipe   { return c.wr }

func (c *Conn) LocalAddr() net.Addr                { return &net.TCPAddr{IP: net.IPv4(127, 0, 0, 1), Port: 1} }
func (c *Conn) RemoteAddr() net.Addr               { return &net.TCPAddr{IP: net.IPv4(127, 0, 0, 1), Port: 2} }
func (c *Conn) SetDeadline(t time.Time) error      { return nil }
func (c *Conn) SetReadDeadline(t time.Time) error  { return nil }
func (c *Conn) SetWriteDeadline(t time.Time) error { return nil }
