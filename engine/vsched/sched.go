// Package vsched is the cooperative scheduler with virtual time that the instrumented
// (overlay-rewritten) trzsz package runs on during model checking. See /verif/DESIGN.md §2.2.
//
// Exactly one managed thread holds the token at any time. Every shim operation calls Point,
// which publishes the pending operation and lets the scheduler decide who runs next. Scheduling
// decisions are taken by the thread that is giving up the token, so a sequential stretch of code
// costs no goroutine hand-off.
//
// With no scheduler installed (G == nil) every shim degrades to the real operation.
package vsched

import (
	"fmt"
	"runtime"
	"sort"
	"strings"
	"time"
	"unsafe"
)

// Choice kinds (PointRec.Kind).
const fairLimit = 400

const (
	KSched  = "sched"  // which enabled thread runs
	KSelect = "select" // which ready select case
	KClock  = "clock"  // let virtual time pass although threads are runnable (folded into sched points)
)

type op struct {
	kind    string
	obj     uintptr
	enabled func() bool
}

type Thread struct {
	ID      int
	Label   string
	wake    chan struct{}
	pending op
	hasPend bool
	done    bool
	started bool
	exited  chan struct{}
	// Daemon threads do not keep an execution alive and are not reported as leaked.
	Daemon   bool
	lastRun  int // scheduler step at which the thread last ran (fairness)
	sameOp   int // consecutive identical operations (spin detection)
	lastKind string
	lastObj  uintptr
	// Flags are thread attributes inherited by spawned threads (used to give the two ends of a
	// transfer different "process-wide" settings inside one process).
	Flags map[string]bool
}

type timer struct {
	deadline int64
	seq      int
	fire     func()
	dead     bool
}

// PointRec is one recorded choice point with more than one alternative.
type PointRec struct {
	N       int    // number of alternatives
	C       int    // chosen
	Kind    string // KSched, KSelect, or an environment kind given to Choose
	Preempt bool   // KSched only: alternative 0 is the running thread, still enabled
	ClockAt int    // KSched only: index of the "advance the clock" alternative, or -1
	Step    int    // scheduler step count when the point was recorded
}

// Config of one execution.
type Config struct {
	MaxSteps    int           // horizon: scheduler steps
	MaxVirtual  time.Duration // horizon: virtual time
	ClockChoice bool          // offer "advance clock now" as an alternative at sched points
	NoRecord    bool          // sequential enumerators: take alternative 0 everywhere, record nothing
	Trace       bool
}

type Sched struct {
	cfg           Config
	threads       []*Thread
	cur           *Thread
	clock         int64
	timers        []*timer
	timerSeq      int
	aborting      bool
	enBuf         []*Thread
	nextID        int
	evaluating    bool
	settleCond    func() bool
	injects       []inject
	settleSince   int
	settleClock   int64
	settleExtra   int
	consec        int
	lastPicked    *Thread
	Stall         time.Duration // virtual time that passed through "clock" deviations (all threads stalled)
	Spinning      bool          // WaitSettled was released by its step budget, not by quiescence
	spawnFlags    map[string]bool
	quiesceWaiter *Thread
	quiescent     bool
	nDone         int
	ended         bool
	endCh         chan struct{}
	prefix        []int
	prefixN       []int

	Points   []PointRec
	Steps    int
	Deadlock bool
	Horizon  bool
	Crash    []string
	Leaked   int // threads that did not unwind at abort (engine problem)
	Trace    []string
	Finger   map[uint64]struct{}
	closed   map[uintptr]any
	Diverged string
	// StateHash lets a driver mix its own object contents into the fingerprint.
	StateHash func() uint64
	// Locals: per-execution storage for drivers.
	Locals map[string]any
}

// G is the scheduler of the execution in progress, nil outside explorations.
var G *Sched

func always() bool { return true }

// Active reports whether a scheduler is installed and not aborting.
func Active() bool { return G != nil && !G.aborting }

// Aborting reports whether the current execution is being torn down.
func Aborting() bool { return G != nil && G.aborting }

// Cur returns the running thread.
func Cur() *Thread {
	if G == nil {
		return nil
	}
	return G.cur
}

// Point is a scheduling point: the calling thread publishes its pending operation and parks until
// the scheduler picks it while the operation is enabled.
func Point(kind string, obj uintptr, enabled func() bool) {
	s := G
	if s == nil || s.aborting || s.evaluating {
		// (evaluating: a driver predicate or oracle is reading product state through a shim)
		return
	}
	t := s.cur
	t.pending = op{kind, obj, enabled}
	t.hasPend = true
	s.reschedule(t)
	t.hasPend = false
}

// Flag reports a thread attribute of the running thread.
func Flag(name string) bool {
	s := G
	if s == nil || s.cur == nil {
		return false
	}
	return s.cur.Flags[name]
}

// SetFlag sets a thread attribute on the running thread (copy on write: threads spawned earlier
// keep what they inherited).
func SetFlag(name string, v bool) {
	s := G
	if s == nil || s.cur == nil {
		return
	}
	m := map[string]bool{}
	for k, x := range s.cur.Flags {
		m[k] = x
	}
	m[name] = v
	s.cur.Flags = m
}

// CurFlags returns the running thread's attributes (for deferred spawns such as AfterFunc).
func CurFlags() map[string]bool {
	if G == nil || G.cur == nil {
		return nil
	}
	return G.cur.Flags
}

// GoWithFlags starts a thread with the given attributes instead of the spawner's.
func GoWithFlags(label string, flags map[string]bool, f func()) *Thread {
	s := G
	if s == nil {
		go f()
		return nil
	}
	if flags == nil {
		flags = map[string]bool{}
	}
	s.spawnFlags = flags
	t := Go(label, f)
	s.spawnFlags = nil
	return t
}

// Peek runs f with scheduling points disabled, so that driver code can read product state through
// the shims (atomic loads, ...) without creating choice points.
func Peek(f func()) {
	s := G
	if s == nil {
		f()
		return
	}
	old := s.evaluating
	s.evaluating = true
	defer func() { s.evaluating = old }()
	f()
}

// Blocked reports whether thread t is parked on an operation that is not enabled right now.
func Blocked(t *Thread) bool {
	return t != nil && !t.done && t.hasPend && !t.pending.enabled()
}

// Done reports whether thread t has finished.
func (t *Thread) Done() bool { return t == nil || t.done }

// WaitQuiescent parks the calling driver thread until no other thread can move and no timer is
// pending (the system under test has gone quiet). Only one thread may wait at a time.
func WaitQuiescent() {
	s := G
	if s == nil || s.aborting {
		return
	}
	s.quiesceWaiter = s.cur
	s.quiescent = false
	Point("quiesce", 0, func() bool { return s.quiescent })
	s.quiesceWaiter = nil
	s.quiescent = false
}

type inject struct {
	step int
	f    func()
}

// InjectAt schedules f to run atomically (no scheduling points inside it) just before the decision
// that follows scheduler step number step. Events must be registered in increasing step order.
func InjectAt(step int, f func()) {
	if G != nil {
		G.injects = append(G.injects, inject{step, f})
	}
}

// StepNow returns the number of scheduler steps taken so far in this execution.
func StepNow() int {
	if G == nil {
		return 0
	}
	return G.Steps
}

// WaitSettled parks the driver until the system is quiescent, or until cond has held for extra
// scheduler steps (something keeps running: a spin or polling loop). Reports whether it was quiescent.
func WaitSettled(cond func() bool, extra int) bool {
	s := G
	if s == nil || s.aborting {
		return true
	}
	s.settleCond, s.settleSince, s.settleExtra = cond, -1, extra
	s.quiesceWaiter = s.cur
	s.quiescent = false
	s.Spinning = false
	Point("settle", 0, func() bool { return s.quiescent })
	s.quiesceWaiter, s.settleCond = nil, nil
	s.quiescent = false
	return !s.Spinning
}

// Yield is a plain scheduling point that is always enabled.
func Yield(kind string) { Point(kind, 0, always) }

func (s *Sched) park(t *Thread) {
	<-t.wake
	if s.aborting {
		runtime.Goexit()
	}
}

func (s *Sched) end() {
	if !s.ended {
		s.ended = true
		close(s.endCh)
	}
}

// reschedule is called by the token holder; it returns when self is chosen to run again.
func (s *Sched) reschedule(self *Thread) {
	if s.ended {
		s.park(self)
	}
	next := s.pick(self)
	if next == nil {
		s.end()
		s.park(self)
		return
	}
	if next == self {
		return
	}
	s.cur = next
	next.wake <- struct{}{}
	s.park(self)
}

func (s *Sched) threadExit(t *Thread) {
	if s.ended {
		return
	}
	next := s.pick(nil)
	if next == nil {
		s.end()
		return
	}
	s.cur = next
	next.wake <- struct{}{}
}

func (s *Sched) enabledSet(self *Thread) []*Thread {
	en := s.enBuf[:0]
	s.evaluating = true
	defer func() { s.evaluating = false }()
	if self != nil && !self.done && self.hasPend && self.pending.enabled() {
		en = append(en, self)
	}
	for _, t := range s.threads {
		if t != self && !t.done && t.hasPend && t.pending.enabled() {
			en = append(en, t)
		}
	}
	s.enBuf = en
	return en
}

func (s *Sched) pendingTimers() bool {
	for _, tm := range s.timers {
		if !tm.dead {
			return true
		}
	}
	return false
}

// pick decides who runs next. nil means the execution is over (deadlock or horizon).
func (s *Sched) pick(self *Thread) *Thread {
	for {
		if s.cfg.MaxSteps > 0 && s.Steps >= s.cfg.MaxSteps {
			s.Horizon = true
			return nil
		}
		if s.cfg.MaxVirtual > 0 && s.clock > int64(s.cfg.MaxVirtual) {
			s.Horizon = true
			return nil
		}
		for len(s.injects) > 0 && s.Steps >= s.injects[0].step {
			// environment event pinned to a scheduling point of the execution: runs atomically here
			in := s.injects[0]
			s.injects = s.injects[1:]
			s.evaluating = true
			in.f()
			s.evaluating = false
		}
		if s.quiesceWaiter != nil && s.settleCond != nil && !s.quiescent && s.settleSince < 0 {
			s.evaluating = true
			if s.settleCond() {
				s.settleSince = s.Steps
				s.settleClock = s.clock
			}
			s.evaluating = false
		}
		en := s.enabledSet(self)
		if len(en) == 0 {
			// a driver waiting in WaitSettled whose condition already holds does not wait for timers
			// that lie far in the future (a peer-supplied timeout of decades must not stall the check)
			if w := s.quiesceWaiter; w != nil && s.settleCond != nil && !s.quiescent && s.settleSince >= 0 {
				if next := s.nextDeadline(); next >= 0 && next > s.settleClock+int64(10*time.Minute) {
					s.quiescent = true
					continue
				}
			}
			if !s.advanceClock() {
				if s.quiesceWaiter != nil && !s.quiescent {
					// nothing can move any more: release the driver thread waiting for quiescence
					s.quiescent = true
					continue
				}
				s.Deadlock = true
				return nil
			}
			continue
		}
		// release a driver waiting in WaitSettled once its condition has held for the step budget
		if w := s.quiesceWaiter; w != nil && s.settleCond != nil && !s.quiescent {
			if s.settleSince >= 0 && s.Steps-s.settleSince >= s.settleExtra {
				s.quiescent = true
				s.Spinning = true
				s.Steps++
				return w
			}
		}
		// fairness: a thread that keeps running while others are runnable (a spin loop, a polling
		// loop) is moved behind them after fairLimit consecutive steps; deterministic, so replay holds
		if self != nil && en[0] == self && s.consec >= fairLimit {
			s.consec = 0
			allSpin := true
			for _, t := range en {
				if t.sameOp < fairLimit {
					allSpin = false
					break
				}
			}
			if allSpin {
				// every runnable thread repeats the same operation over and over (spin loops): time
				// passes meanwhile, let the earliest timer fire; with no timer left nothing else can
				// ever happen, which is as quiet as this system gets
				for _, t := range en {
					t.sameOp = 0
				}
				if s.pendingTimers() {
					s.advanceClock()
					continue
				}
				if w := s.quiesceWaiter; w != nil && !s.quiescent {
					s.quiescent = true
					s.Spinning = true
					s.Steps++
					return w
				}
			}
			if len(en) > 1 {
				// others are runnable: the one that has waited longest goes first, self last
				copy(en, en[1:])
				en[len(en)-1] = self
				best := 0
				for i := 1; i < len(en)-1; i++ {
					if en[i].lastRun < en[best].lastRun {
						best = i
					}
				}
				if best != 0 {
					t := en[best]
					copy(en[1:best+1], en[0:best])
					en[0] = t
				}
			}
		}
		n := len(en)
		clockAt := -1
		if s.cfg.ClockChoice && s.pendingTimers() {
			clockAt = n
			n++
		}
		preempt := self != nil && en[0] == self
		c := s.choose(n, KSched, preempt, clockAt)
		if c == clockAt {
			before := s.clock
			s.advanceClock()
			s.Stall += time.Duration(s.clock - before)
			continue
		}
		t := en[c]
		if t == s.lastPicked {
			s.consec++
		} else {
			s.consec = 0
			s.lastPicked = t
		}
		if t.pending.kind == t.lastKind && t.pending.obj == t.lastObj {
			t.sameOp++
		} else {
			t.sameOp = 0
		}
		t.lastKind, t.lastObj = t.pending.kind, t.pending.obj
		t.lastRun = s.Steps
		s.Steps++
		if !s.cfg.NoRecord {
			s.fingerprint(t)
		}
		if s.cfg.Trace {
			s.Trace = append(s.Trace, fmt.Sprintf("t=%s #%d:%s %s (of %d)", time.Duration(s.clock), t.ID, t.Label, t.pending.kind, len(en)))
		}
		return t
	}
}

func (s *Sched) choose(n int, kind string, preempt bool, clockAt int) int {
	if n <= 1 || s.cfg.NoRecord {
		return 0
	}
	i := len(s.Points)
	c := 0
	if i < len(s.prefix) {
		c = s.prefix[i]
		if c >= n || (s.prefixN != nil && s.prefixN[i] != n) {
			s.Diverged = fmt.Sprintf("replay divergence at point %d (%s): choice %d, alternatives now %d, recorded %v", i, kind, c, n, s.prefixNAt(i))
			panic(divergence{s.Diverged})
		}
	}
	s.Points = append(s.Points, PointRec{N: n, C: c, Kind: kind, Preempt: preempt, ClockAt: clockAt, Step: s.Steps})
	return c
}

type divergence struct{ msg string }

func (s *Sched) prefixNAt(i int) int {
	if s.prefixN == nil {
		return -1
	}
	return s.prefixN[i]
}

// Choose is an environment choice point offered by driver objects: returns 0..n-1, default 0.
func Choose(kind string, n int) int {
	s := G
	if s == nil || s.aborting || n <= 1 {
		return 0
	}
	return s.choose(n, kind, false, -1)
}

func (s *Sched) fingerprint(next *Thread) {
	s.evaluating = true
	defer func() { s.evaluating = false }()
	const prime = 1099511628211
	h := uint64(14695981039346656037)
	mix := func(x uint64) { h ^= x; h *= prime }
	for _, t := range s.threads {
		if t.done {
			mix(0xdead)
			continue
		}
		if t.hasPend {
			for i := 0; i < len(t.pending.kind); i++ {
				mix(uint64(t.pending.kind[i]))
			}
			if t.pending.enabled() {
				mix(1)
			} else {
				mix(2)
			}
		}
		mix(uint64(t.ID) + 77)
	}
	mix(uint64(next.ID))
	mix(uint64(s.clock))
	if s.StateHash != nil {
		mix(s.StateHash())
	}
	s.Finger[h] = struct{}{}
}

func (s *Sched) nextDeadline() int64 {
	var next int64 = -1
	for _, tm := range s.timers {
		if !tm.dead && (next < 0 || tm.deadline < next) {
			next = tm.deadline
		}
	}
	return next
}

// advanceClock moves virtual time to the earliest pending deadline and fires everything due.
func (s *Sched) advanceClock() bool {
	var next int64 = -1
	for _, tm := range s.timers {
		if !tm.dead && (next < 0 || tm.deadline < next) {
			next = tm.deadline
		}
	}
	if next < 0 {
		return false
	}
	if next > s.clock {
		s.clock = next
	}
	sort.SliceStable(s.timers, func(i, j int) bool {
		if s.timers[i].deadline != s.timers[j].deadline {
			return s.timers[i].deadline < s.timers[j].deadline
		}
		return s.timers[i].seq < s.timers[j].seq
	})
	due := []*timer{}
	keep := s.timers[:0:0]
	for _, tm := range s.timers {
		if tm.dead {
			continue
		}
		if tm.deadline <= s.clock {
			due = append(due, tm)
		} else {
			keep = append(keep, tm)
		}
	}
	s.timers = keep
	for _, tm := range due {
		if !tm.dead {
			tm.dead = true
			tm.fire()
		}
	}
	return true
}

// Go starts a managed thread.
func Go(label string, f func()) *Thread {
	s := G
	if s == nil {
		go f()
		return nil
	}
	if s.aborting {
		return nil
	}
	if len(s.threads) >= 64 && s.nDone*2 > len(s.threads) {
		// compact: forget finished threads (ids stay unique)
		live := s.threads[:0]
		for _, x := range s.threads {
			if !x.done || x.ID == 0 {
				live = append(live, x)
			}
		}
		for i := len(live); i < len(s.threads); i++ {
			s.threads[i] = nil
		}
		s.threads = live
		s.nDone = 0
	}
	t := &Thread{ID: s.nextID, Label: label, wake: make(chan struct{}, 1), exited: make(chan struct{})}
	s.nextID++
	if s.spawnFlags != nil {
		t.Flags = s.spawnFlags
	} else if s.cur != nil {
		t.Flags = s.cur.Flags
	}
	t.pending = op{"start", 0, always}
	t.hasPend = true
	s.threads = append(s.threads, t)
	go func() {
		<-t.wake
		if s.aborting {
			t.done = true
			close(t.exited)
			return
		}
		t.started = true
		t.hasPend = false
		defer func() {
			r := recover()
			if r != nil && !s.aborting {
				if d, ok := r.(divergence); ok {
					s.Diverged = d.msg
				} else {
					buf := make([]byte, 4096)
					buf = buf[:runtime.Stack(buf, false)]
					s.Crash = append(s.Crash, fmt.Sprintf("%s: %v", label, r))
					if s.cfg.Trace {
						s.Trace = append(s.Trace, "CRASH "+label+": "+fmt.Sprint(r)+"\n"+string(buf))
					}
				}
				s.end()
			}
			t.done = true
			s.nDone++
			aborting := s.aborting
			if !aborting {
				if t.ID == 0 {
					s.end()
				} else {
					s.threadExit(t)
				}
			}
			close(t.exited)
		}()
		f()
	}()
	return t
}

// GoDaemon starts a managed thread that is expected to outlive the scenario.
func GoDaemon(label string, f func()) *Thread {
	t := Go(label, f)
	if t != nil {
		t.Daemon = true
	}
	return t
}

// Run executes body as thread 0, replaying prefix (choice per recorded point) and taking
// alternative 0 everywhere else. prefixN, if not nil, holds the alternative count recorded for
// each prefix point and is checked during replay.
func Run(cfg Config, prefix, prefixN []int, body func()) *Sched {
	if G != nil {
		panic("vsched: nested Run")
	}
	s := &Sched{cfg: cfg, prefix: prefix, prefixN: prefixN, endCh: make(chan struct{}),
		Finger: map[uint64]struct{}{}, closed: map[uintptr]any{}, Locals: map[string]any{}}
	G = s
	main := Go("main", body)
	s.cur = main
	main.wake <- struct{}{}
	<-s.endCh
	// Tear down: release every parked thread, one at a time, waiting for each to unwind.
	s.aborting = true
	for i := 0; i < len(s.threads); i++ {
		t := s.threads[i]
		select {
		case <-t.exited:
			continue
		default:
		}
		select {
		case t.wake <- struct{}{}:
		default:
		}
		select {
		case <-t.exited:
		case <-time.After(2 * time.Second):
			s.Leaked++
		}
	}
	G = nil
	return s
}

// Alive lists managed non-daemon threads that had started and not finished when the execution ended.
func (s *Sched) Alive() []string {
	var out []string
	for _, t := range s.threads {
		if t.ID != 0 && !t.done && !t.Daemon {
			k := "start"
			if t.hasPend {
				k = t.pending.kind
			}
			out = append(out, t.Label+"@"+k)
		}
	}
	return out
}

// AliveNow is Alive for the execution in progress (callable from the driver thread).
func AliveNow() []string {
	if G == nil {
		return nil
	}
	return G.Alive()
}

func (s *Sched) Choices() []int {
	c := make([]int, len(s.Points))
	for i, p := range s.Points {
		c[i] = p.C
	}
	return c
}

func (s *Sched) CrashString() string { return strings.Join(s.Crash, "; ") }

// ---- virtual time ----

var epoch = time.Unix(1_700_000_000, 0)

func Now() time.Time {
	if G == nil {
		return time.Now()
	}
	return epoch.Add(time.Duration(G.clock))
}

// Elapsed is the virtual time since the start of the execution.
func Elapsed() time.Duration {
	if G == nil {
		return 0
	}
	return time.Duration(G.clock)
}

type VTimer struct{ tm *timer }

func (t *VTimer) Stop() bool { was := !t.tm.dead; t.tm.dead = true; return was }

func AddTimer(d time.Duration, fire func()) *VTimer {
	s := G
	if d < 0 {
		d = 0
	}
	s.timerSeq++
	tm := &timer{deadline: s.clock + int64(d), seq: s.timerSeq, fire: fire}
	s.timers = append(s.timers, tm)
	return &VTimer{tm}
}

func Sleep(d time.Duration) {
	if G == nil {
		time.Sleep(d)
		return
	}
	if G.aborting {
		return
	}
	woke := false
	AddTimer(d, func() { woke = true })
	Point("sleep", 0, func() bool { return woke })
}

// ---- channels ----

func rptr[T any](ch <-chan T) uintptr { return *(*uintptr)(unsafe.Pointer(&ch)) }
func sptr[T any](ch chan<- T) uintptr { return *(*uintptr)(unsafe.Pointer(&ch)) }

func recvReady[T any](ch <-chan T) bool {
	if ch == nil {
		return false
	}
	if len(ch) > 0 {
		return true
	}
	s := G
	p := rptr(ch)
	if _, ok := s.closed[p]; ok {
		return true
	}
	// len == 0 and no unbuffered channels exist in the product and every send goes through a
	// shim that only runs when there is room: a non-blocking receive can only succeed if the
	// channel was closed by code outside the rewritten package (context.Done()).
	select {
	case _, ok := <-ch:
		if ok {
			panic("vsched: receive probe consumed a value (unbuffered channel or unmanaged sender)")
		}
		s.closed[p] = ch
		return true
	default:
	}
	return false
}

func sendReady[T any](ch chan<- T) bool {
	if ch == nil {
		return false
	}
	if cap(ch) == 0 {
		G.Diverged = "send on an unbuffered channel: a rendezvous cannot be executed by the cooperative scheduler (tool limitation, not a verdict)"
		panic(divergence{G.Diverged})
	}
	if len(ch) < cap(ch) {
		return true
	}
	_, ok := G.closed[sptr(ch)]
	return ok
}

func closedDummy[T any]() chan T { c := make(chan T); close(c); return c }

// S wraps the channel operand of a send statement.
func S[T any](ch chan<- T) chan<- T {
	if G != nil {
		if G.aborting {
			return make(chan T, 1)
		}
		Point("send", sptr(ch), func() bool { return sendReady(ch) })
	}
	return ch
}

// R wraps the channel operand of a receive expression.
func R[T any](ch <-chan T) <-chan T {
	if G != nil {
		if G.aborting {
			return closedDummy[T]()
		}
		Point("recv", rptr(ch), func() bool { return recvReady(ch) })
	}
	return ch
}

func Close[T any](ch chan<- T) {
	if G != nil && !G.aborting {
		Point("close", sptr(ch), always)
		G.closed[sptr(ch)] = ch
	}
	if G != nil && G.aborting {
		defer func() { recover() }()
	}
	close(ch)
}

type Probe func() bool

func RecvProbe[T any](ch <-chan T) Probe { return func() bool { return recvReady(ch) } }
func SendProbe[T any](ch chan<- T) Probe { return func() bool { return sendReady(ch) } }

const selAll = -2

// Select decides which case of the following (kept) select statement runs.
func Select(hasDefault bool, p ...Probe) int {
	s := G
	if s == nil {
		return selAll
	}
	if s.aborting {
		if hasDefault {
			return -1
		}
		return -3 // every operand becomes a ready dummy
	}
	Point("select", 0, func() bool {
		if hasDefault {
			return true
		}
		for _, f := range p {
			if f() {
				return true
			}
		}
		return false
	})
	var ready []int
	for i, f := range p {
		if f() {
			ready = append(ready, i)
		}
	}
	if len(ready) == 0 {
		return -1
	}
	return ready[Choose(KSelect, len(ready))]
}

func Only[T any](sel, i int, ch <-chan T) <-chan T {
	if sel == selAll || sel == i {
		return ch
	}
	if sel == -3 {
		return closedDummy[T]()
	}
	return nil
}

func OnlySend[T any](sel, i int, ch chan<- T) chan<- T {
	if sel == selAll || sel == i {
		return ch
	}
	if sel == -3 {
		return make(chan T, 1)
	}
	return nil
}

// Touch marks an access to a plain shared field as a scheduling point (rule R10).
func Touch(name string) { Point("touch:"+name, 0, always) }
