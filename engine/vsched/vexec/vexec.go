// Package vexec replaces "os/exec" in zmodem.go (rule R8). For now a pass-through; the helper
// process model used by C19 replaces Command when a model is installed.
package vexec

import (
	"errors"
	"io"
	"os/exec"

	vs "github.com/trzsz/trzsz-go/zzverif/vsched"
)

// Model is the scripted helper process installed by a driver.
type Model interface {
	// Start is called by Cmd.Start; a non-nil error means the helper could not be started.
	Start(c *Cmd) error
}

// Installed model (per execution; set by the driver, cleared afterwards).
var Installed Model

type ProcessState struct{ Code int }

func (p *ProcessState) ExitCode() int {
	if p == nil {
		return -1
	}
	return p.Code
}

type Process struct{ c *Cmd }

func (p *Process) Kill() error {
	if p.c.real != nil {
		return p.c.real.Process.Kill()
	}
	vs.Yield("proc.kill")
	p.c.Killed = true
	if !p.c.Exited {
		p.c.Exited = true
		p.c.ExitCode = -1
	}
	return nil
}

type Cmd struct {
	Path string
	Args []string
	Dir  string

	Process      *Process
	ProcessState *ProcessState

	real *exec.Cmd

	// model state, owned by the Model
	Stdin    *vs.Pipe // what the product writes to the helper
	Stdout   *vs.Pipe // what the helper prints
	Started  bool
	Exited   bool
	ExitCode int
	Killed   bool
}

func Command(name string, args ...string) *Cmd {
	c := &Cmd{Path: name, Args: append([]string{name}, args...)}
	if Installed == nil || !vs.Active() {
		c.real = exec.Command(name, args...)
	}
	return c
}

func (c *Cmd) StdinPipe() (io.WriteCloser, error) {
	if c.real != nil {
		c.real.Dir = c.Dir
		return c.real.StdinPipe()
	}
	c.Stdin = vs.NewPipe("helper.stdin")
	return c.Stdin, nil
}

func (c *Cmd) StdoutPipe() (io.ReadCloser, error) {
	if c.real != nil {
		return c.real.StdoutPipe()
	}
	c.Stdout = vs.NewPipe("helper.stdout")
	return c.Stdout, nil
}

func (c *Cmd) Start() error {
	if c.real != nil {
		c.real.Dir = c.Dir
		err := c.real.Start()
		if c.real.Process != nil {
			c.Process = &Process{c}
		}
		return err
	}
	vs.Yield("proc.start")
	if err := Installed.Start(c); err != nil {
		return err
	}
	c.Started = true
	c.Process = &Process{c}
	return nil
}

func (c *Cmd) Wait() error {
	if c.real != nil {
		err := c.real.Wait()
		if c.real.ProcessState != nil {
			c.ProcessState = &ProcessState{c.real.ProcessState.ExitCode()}
		}
		return err
	}
	vs.Point("proc.wait", 0, func() bool { return c.Exited })
	c.ProcessState = &ProcessState{c.ExitCode}
	if c.Stdout != nil {
		c.Stdout.CloseWrite()
	}
	if c.ExitCode != 0 {
		return errors.New("exit status")
	}
	return nil
}
