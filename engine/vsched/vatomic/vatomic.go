// Package vatomic replaces "sync/atomic" in the instrumented trzsz package: every operation is a
// scheduling point.
package vatomic

import (
	"sync/atomic"

	vs "github.com/trzsz/trzsz-go/zzverif/vsched"
)

func pt() { vs.Yield("atomic") }

type Bool struct{ v atomic.Bool }

func (b *Bool) Load() bool                    { pt(); return b.v.Load() }
func (b *Bool) Store(x bool)                  { pt(); b.v.Store(x) }
func (b *Bool) Swap(x bool) bool              { pt(); return b.v.Swap(x) }
func (b *Bool) CompareAndSwap(o, n bool) bool { pt(); return b.v.CompareAndSwap(o, n) }

type Int32 struct{ v atomic.Int32 }

func (b *Int32) Load() int32                    { pt(); return b.v.Load() }
func (b *Int32) Store(x int32)                  { pt(); b.v.Store(x) }
func (b *Int32) Add(x int32) int32              { pt(); return b.v.Add(x) }
func (b *Int32) Swap(x int32) int32             { pt(); return b.v.Swap(x) }
func (b *Int32) CompareAndSwap(o, n int32) bool { pt(); return b.v.CompareAndSwap(o, n) }

type Int64 struct{ v atomic.Int64 }

func (b *Int64) Load() int64                    { pt(); return b.v.Load() }
func (b *Int64) Store(x int64)                  { pt(); b.v.Store(x) }
func (b *Int64) Add(x int64) int64              { pt(); return b.v.Add(x) }
func (b *Int64) Swap(x int64) int64             { pt(); return b.v.Swap(x) }
func (b *Int64) CompareAndSwap(o, n int64) bool { pt(); return b.v.CompareAndSwap(o, n) }

type Uint32 struct{ v atomic.Uint32 }

func (b *Uint32) Load() uint32                    { pt(); return b.v.Load() }
func (b *Uint32) Store(x uint32)                  { pt(); b.v.Store(x) }
func (b *Uint32) Add(x uint32) uint32             { pt(); return b.v.Add(x) }
func (b *Uint32) Swap(x uint32) uint32            { pt(); return b.v.Swap(x) }
func (b *Uint32) CompareAndSwap(o, n uint32) bool { pt(); return b.v.CompareAndSwap(o, n) }

type Uint64 struct{ v atomic.Uint64 }

func (b *Uint64) Load() uint64                    { pt(); return b.v.Load() }
func (b *Uint64) Store(x uint64)                  { pt(); b.v.Store(x) }
func (b *Uint64) Add(x uint64) uint64             { pt(); return b.v.Add(x) }
func (b *Uint64) Swap(x uint64) uint64            { pt(); return b.v.Swap(x) }
func (b *Uint64) CompareAndSwap(o, n uint64) bool { pt(); return b.v.CompareAndSwap(o, n) }

type Pointer[T any] struct{ v atomic.Pointer[T] }

func (p *Pointer[T]) Load() *T                    { pt(); return p.v.Load() }
func (p *Pointer[T]) Store(x *T)                  { pt(); p.v.Store(x) }
func (p *Pointer[T]) Swap(x *T) *T                { pt(); return p.v.Swap(x) }
func (p *Pointer[T]) CompareAndSwap(o, n *T) bool { pt(); return p.v.CompareAndSwap(o, n) }

type Value = atomic.Value

func AddInt32(a *int32, d int32) int32              { pt(); return atomic.AddInt32(a, d) }
func AddInt64(a *int64, d int64) int64              { pt(); return atomic.AddInt64(a, d) }
func LoadInt32(a *int32) int32                      { pt(); return atomic.LoadInt32(a) }
func LoadInt64(a *int64) int64                      { pt(); return atomic.LoadInt64(a) }
func StoreInt32(a *int32, v int32)                  { pt(); atomic.StoreInt32(a, v) }
func StoreInt64(a *int64, v int64)                  { pt(); atomic.StoreInt64(a, v) }
func CompareAndSwapInt32(a *int32, o, n int32) bool { pt(); return atomic.CompareAndSwapInt32(a, o, n) }
func CompareAndSwapInt64(a *int64, o, n int64) bool { pt(); return atomic.CompareAndSwapInt64(a, o, n) }
