package vsched

import (
	"fmt"
	"regexp"
	"sort"
	"strings"
	"time"
)

// ExecResult is what a scenario reports for one execution.
type ExecResult struct {
	Sched     *Sched
	Outcome   string // canonical observable outcome (for the distinct-outcome vacuity guard)
	Violation string // "" if the oracle holds
	Signature string // stable identification of the failing observation (known-findings matching)
	Detail    any    // optional, stored in replay files
}

// ExecFn runs one execution of a scenario under a choice prefix.
type ExecFn func(prefix, prefixN []int, trace bool) *ExecResult

// Budget bounds the deviations from the default schedule / environment.
type Budget struct {
	Total      int
	PerKind    map[string]int // max number of deviations of a kind; kinds not listed: limited by Total only
	FreeSwitch bool           // CHESS style: choosing among threads when the running one blocked is free
	Cost       map[string]int // cost per kind (default 1)
	// OnlyAfterKind: if set, sched/select/clock deviations are only taken after a deviation of this
	// kind occurred earlier on the path (restriction stated in DESIGN §8).
	OnlyAfterKind string
	// OnlyAfterStep: deviations are only taken at points recorded at or after this scheduler step
	// (used to perturb the schedule after an injected event).
	OnlyAfterStep int
}

// Violation found by the explorer.
type Violation struct {
	Desc      string `json:"desc"`
	Signature string `json:"signature"`
	Choices   []int  `json:"choices"`
	Ns        []int  `json:"ns"`
	Outcome   string `json:"outcome"`
	Exec      int64  `json:"exec"`
	Detail    any    `json:"detail,omitempty"`
}

type Stats struct {
	Execs      int64
	Steps      int64
	Points     int64
	Pruned     int64
	States     map[uint64]struct{}
	Outcomes   map[string]int64
	Deadlocks  int64
	Horizons   int64
	MaxDev     int
	Capped     string
	Samples    []string
	Violations []Violation
	ToolErr    string
	Replayed   int64 // executions re-run to validate determinism
	DevHist    map[string]int64
}

func NewStats() *Stats {
	return &Stats{States: map[uint64]struct{}{}, Outcomes: map[string]int64{}, DevHist: map[string]int64{}}
}

type Explorer struct {
	Exec     ExecFn
	Budget   Budget
	Shard    int
	NShards  int
	Deadline time.Time
	MaxExecs int64
	MaxViol  int
	St       *Stats
	stop     bool
	sigSeen  map[string]bool
	// SigSeen, if set, is shared between explorers of one job (dedup of violations by signature).
	SigSeen map[string]bool
	// Known, if set, tells which signatures are listed findings: they are recorded once and do not
	// count towards MaxViol.
	Known  func(sig string) bool
	nKnown int
}

func (e *Explorer) classify(p PointRec, alt int) (kind string, cost int) {
	kind = p.Kind
	if p.Kind == KSched {
		switch {
		case alt == p.ClockAt:
			kind = KClock
		case p.Preempt:
			kind = "preempt"
		default:
			kind = "switch"
		}
	}
	cost = 1
	if c, ok := e.Budget.Cost[kind]; ok {
		cost = c
	}
	if kind == "switch" && e.Budget.FreeSwitch {
		cost = 0
	}
	return
}

func isSchedKind(k string) bool {
	return k == "preempt" || k == "switch" || k == KClock || k == KSelect
}

func (e *Explorer) record(r *ExecResult, count bool) {
	st := e.St
	if !count {
		return
	}
	st.Execs++
	s := r.Sched
	if s != nil {
		st.Steps += int64(s.Steps)
		st.Points += int64(len(s.Points))
		for h := range s.Finger {
			st.States[h] = struct{}{}
		}
		if s.Deadlock {
			st.Deadlocks++
		}
		if s.Horizon {
			st.Horizons++
		}
	}
	o := r.Outcome
	if len(o) > 200 {
		o = fmt.Sprintf("%s…#%x", o[:120], fnv(o))
	}
	st.Outcomes[o]++
}

func fnv(s string) uint64 {
	h := uint64(14695981039346656037)
	for i := 0; i < len(s); i++ {
		h ^= uint64(s[i])
		h *= 1099511628211
	}
	return h
}

// Explore runs the search with the configured budget. Returns false if it was cut short.
func (e *Explorer) Explore() bool {
	if e.NShards == 0 {
		e.NShards = 1
	}
	if e.MaxViol == 0 {
		e.MaxViol = 3
	}
	e.sigSeen = map[string]bool{}
	if e.SigSeen != nil {
		e.sigSeen = e.SigSeen
	}
	e.explore(nil, nil, map[string]int{}, 0, 0)
	return !e.stop
}

func (e *Explorer) explore(prefix, prefixN []int, used map[string]int, total int, depth int) {
	if e.stop {
		return
	}
	if !e.Deadline.IsZero() && time.Now().After(e.Deadline) {
		e.stop = true
		e.St.Capped = "deadline"
		return
	}
	if e.MaxExecs > 0 && e.St.Execs >= e.MaxExecs {
		e.stop = true
		e.St.Capped = "max-execs"
		return
	}
	r := e.Exec(prefix, prefixN, false)
	count := depth > 0 || e.Shard == 0
	e.record(r, count)
	if r.Sched != nil && r.Sched.Diverged != "" {
		e.St.ToolErr = r.Sched.Diverged
		e.stop = true
		return
	}
	if r.Sched != nil && r.Sched.Leaked > 0 {
		e.St.ToolErr = fmt.Sprintf("%d threads did not unwind at the end of an execution (choices %v)", r.Sched.Leaked, trimZeros(r.Sched.Choices()))
		e.stop = true
		return
	}
	if total > e.St.MaxDev {
		e.St.MaxDev = total
	}
	var pts []PointRec
	var choices []int
	if r.Sched != nil {
		pts = r.Sched.Points
		choices = r.Sched.Choices()
	}
	if count && len(e.St.Samples) < 4 && (depth > 0 || e.St.Execs == 1) {
		e.St.Samples = append(e.St.Samples, fmt.Sprintf("choices=%v points=%d steps=%d outcome=%s", trimZeros(choices), len(pts), stepsOf(r), clip(r.Outcome, 160)))
	}
	if r.Violation != "" && count {
		sig := r.Signature
		if sig == "" {
			sig = r.Violation
		}
		if !e.sigSeen[sig] {
			e.sigSeen[sig] = true
			ns := make([]int, len(pts))
			for i, p := range pts {
				ns[i] = p.N
			}
			// re-run 5x from the replay before believing it
			same := true
			for k := 0; k < 5; k++ {
				rr := e.Exec(choices, ns, false)
				e.St.Replayed++
				if normViolation(rr.Violation) != normViolation(r.Violation) {
					same = false
					e.St.ToolErr = fmt.Sprintf("violation not reproducible on replay: first %q then %q (choices %v)", r.Violation, rr.Violation, trimZeros(choices))
					break
				}
			}
			if !same {
				e.stop = true
				return
			}
			e.St.Violations = append(e.St.Violations, Violation{Desc: r.Violation, Signature: sig, Choices: trimZeros(choices), Ns: ns[:len(trimZeros(choices))], Outcome: clip(r.Outcome, 2000), Exec: e.St.Execs, Detail: r.Detail})
			if e.Known != nil && e.Known(sig) {
				e.nKnown++
			}
			if len(e.St.Violations)-e.nKnown >= e.MaxViol {
				e.stop = true
				e.St.Capped = "max-violations"
				return
			}
		}
	}
	ord := 0
	for i := len(prefix); i < len(pts); i++ {
		p := pts[i]
		if p.Step < e.Budget.OnlyAfterStep {
			continue
		}
		for alt := 1; alt < p.N; alt++ {
			kind, cost := e.classify(p, alt)
			if total+cost > e.Budget.Total {
				e.St.Pruned++
				continue
			}
			if lim, ok := e.Budget.PerKind[kind]; ok && used[kind]+1 > lim {
				e.St.Pruned++
				continue
			}
			if e.Budget.OnlyAfterKind != "" && isSchedKind(kind) && used[e.Budget.OnlyAfterKind] == 0 {
				e.St.Pruned++
				continue
			}
			if depth == 0 {
				mine := ord%e.NShards == e.Shard
				ord++
				if !mine {
					continue
				}
			}
			np := append(append(make([]int, 0, i+1), choices[:i]...), alt)
			nn := make([]int, i+1)
			for k := 0; k <= i; k++ {
				nn[k] = pts[k].N
			}
			used[kind]++
			e.St.DevHist[kind]++
			e.explore(np, nn, used, total+cost, depth+1)
			used[kind]--
			if e.stop {
				return
			}
		}
	}
}

func stepsOf(r *ExecResult) int {
	if r.Sched == nil {
		return 0
	}
	return r.Sched.Steps
}

func clip(s string, n int) string {
	if len(s) <= n {
		return s
	}
	return s[:n] + "…"
}

func trimZeros(c []int) []int {
	n := len(c)
	for n > 0 && c[n-1] == 0 {
		n--
	}
	return c[:n]
}

// DeterminismCheck replays the default schedule and one non-default schedule twice each and
// compares traces and outcomes. Returns the number of replays validated, or an error text.
func DeterminismCheck(exec ExecFn) (int, string) {
	a := exec(nil, nil, true)
	b := exec(nil, nil, true)
	if d := diffRuns(a, b); d != "" {
		return 0, "default schedule is not deterministic: " + d
	}
	n := 2
	if a.Sched == nil {
		return n, ""
	}
	// deepest point with an alternative: take alternative 1 there
	pts := a.Sched.Points
	for i := len(pts) - 1; i >= 0; i-- {
		if pts[i].N > 1 {
			np := append(append([]int{}, a.Sched.Choices()[:i]...), 1)
			nn := make([]int, i+1)
			for k := 0; k <= i; k++ {
				nn[k] = pts[k].N
			}
			c := exec(np, nn, true)
			d := exec(np, nn, true)
			if c.Sched.Diverged != "" {
				return n, "replay of a recorded prefix diverged: " + c.Sched.Diverged
			}
			if dd := diffRuns(c, d); dd != "" {
				return n, "non-default schedule is not deterministic: " + dd
			}
			n += 2
			break
		}
	}
	return n, ""
}

func diffRuns(a, b *ExecResult) string {
	if a.Outcome != b.Outcome {
		return fmt.Sprintf("outcome %q vs %q", clip(a.Outcome, 300), clip(b.Outcome, 300))
	}
	if a.Violation != b.Violation {
		return fmt.Sprintf("violation %q vs %q", a.Violation, b.Violation)
	}
	if a.Sched == nil || b.Sched == nil {
		return ""
	}
	if len(a.Sched.Trace) != len(b.Sched.Trace) {
		return fmt.Sprintf("trace length %d vs %d", len(a.Sched.Trace), len(b.Sched.Trace))
	}
	for i := range a.Sched.Trace {
		if a.Sched.Trace[i] != b.Sched.Trace[i] {
			return fmt.Sprintf("trace step %d: %q vs %q", i, a.Sched.Trace[i], b.Sched.Trace[i])
		}
	}
	return ""
}

func (st *Stats) OutcomeSummary(max int) []string {
	type kv struct {
		k string
		v int64
	}
	var l []kv
	for k, v := range st.Outcomes {
		l = append(l, kv{k, v})
	}
	sort.Slice(l, func(i, j int) bool { return l[i].v > l[j].v || (l[i].v == l[j].v && l[i].k < l[j].k) })
	var out []string
	for i, x := range l {
		if i >= max {
			break
		}
		out = append(out, fmt.Sprintf("%d× %s", x.v, clip(strings.ReplaceAll(x.k, "\n", "\\n"), 200)))
	}
	return out
}

var goroutineNoRe = regexp.MustCompile(`goroutine \d+|0x[0-9a-f]+|\+0x[0-9a-f]+`)

// normViolation removes what legitimately differs between two runs of the same schedule from a
// violation text that quotes a stack trace of the product (goroutine numbers, addresses).
func normViolation(s string) string { return goroutineNoRe.ReplaceAllString(s, "#") }
