// Package vsync replaces "sync" in the instrumented trzsz package.
package vsync

import (
	"sync"
	"unsafe"

	vs "github.com/trzsz/trzsz-go/zzverif/vsched"
)

type Once = sync.Once
type Locker = sync.Locker
type Pool = sync.Pool
type Map = sync.Map

type Mutex struct {
	m      sync.Mutex
	locked bool
}

func (m *Mutex) Lock() {
	if !vs.Active() {
		if vs.Aborting() {
			return
		}
		m.m.Lock()
		return
	}
	vs.Point("lock", uintptr(unsafe.Pointer(m)), func() bool { return !m.locked })
	m.locked = true
}

func (m *Mutex) TryLock() bool {
	if !vs.Active() {
		if vs.Aborting() {
			return true
		}
		return m.m.TryLock()
	}
	vs.Yield("trylock")
	if m.locked {
		return false
	}
	m.locked = true
	return true
}

func (m *Mutex) Unlock() {
	if !vs.Active() {
		if vs.Aborting() {
			return
		}
		m.m.Unlock()
		return
	}
	if !m.locked {
		panic("sync: unlock of unlocked mutex")
	}
	m.locked = false
}

type RWMutex struct {
	m       sync.RWMutex
	writer  bool
	readers int
}

func (m *RWMutex) Lock() {
	if !vs.Active() {
		if vs.Aborting() {
			return
		}
		m.m.Lock()
		return
	}
	vs.Point("lock", uintptr(unsafe.Pointer(m)), func() bool { return !m.writer && m.readers == 0 })
	m.writer = true
}
func (m *RWMutex) Unlock() {
	if !vs.Active() {
		if vs.Aborting() {
			return
		}
		m.m.Unlock()
		return
	}
	m.writer = false
}
func (m *RWMutex) RLock() {
	if !vs.Active() {
		if vs.Aborting() {
			return
		}
		m.m.RLock()
		return
	}
	vs.Point("rlock", uintptr(unsafe.Pointer(m)), func() bool { return !m.writer })
	m.readers++
}
func (m *RWMutex) RUnlock() {
	if !vs.Active() {
		if vs.Aborting() {
			return
		}
		m.m.RUnlock()
		return
	}
	m.readers--
}

type WaitGroup struct {
	w sync.WaitGroup
	n int
}

func (w *WaitGroup) Add(n int) {
	if !vs.Active() {
		if vs.Aborting() {
			return
		}
		w.w.Add(n)
		return
	}
	vs.Yield("wg.add")
	w.n += n
	if w.n < 0 {
		panic("sync: negative WaitGroup counter")
	}
}
func (w *WaitGroup) Done() { w.Add(-1) }
func (w *WaitGroup) Wait() {
	if !vs.Active() {
		if vs.Aborting() {
			return
		}
		w.w.Wait()
		return
	}
	vs.Point("wg.wait", uintptr(unsafe.Pointer(w)), func() bool { return w.n == 0 })
}
