package vsched

// HookFn, when set by a driver for the current execution, receives every R9 hook call and may
// return an error to inject a local failure at that seam.
var HookFn func(name string, args ...any) error

// ObsFn receives observation-only hook calls.
var ObsFn func(name string, args ...any)

func Hook(name string, args ...any) error {
	if G == nil || G.aborting || HookFn == nil {
		return nil
	}
	return HookFn(name, args...)
}

func Obs(name string, args ...any) {
	if G == nil || G.aborting || ObsFn == nil {
		return
	}
	ObsFn(name, args...)
}
