// Package rewrite generates the instrumented copy of /repo/trzsz and the -overlay file
// (rules R1–R14 of /verif/DESIGN.md §2.1).
package rewrite

import (
	"bytes"
	"crypto/sha256"
	"encoding/hex"
	"encoding/json"
	"fmt"
	"go/ast"
	"go/parser"
	"go/printer"
	"go/token"
	"go/types"
	"os"
	"path/filepath"
	"sort"
	"strconv"
	"strings"

	"golang.org/x/tools/go/ast/astutil"
	"golang.org/x/tools/go/packages"
)

const ShimBase = "github.com/trzsz/trzsz-go/zzverif/vsched"

var importMap = map[string][2]string{ // path -> (new path, local name)
	"sync":        {ShimBase + "/vsync", "sync"},
	"sync/atomic": {ShimBase + "/vatomic", "atomic"},
	"time":        {ShimBase + "/vtime", "time"},
}

// Hook describes rule R9: prepend `if err := vs.Hook(name, args...); err != nil { return zero..., err }`.
type Hook struct {
	Recv string   // receiver type name ("" for a function), without '*'
	Func string   // function or method name
	Name string   // hook name passed to vs.Hook
	Args []string // expressions (parameter names) passed to the hook
}

var Hooks = []Hook{
	{Recv: "simpleFileWriter", Func: "Write", Name: "fileWrite", Args: []string{"p"}},
	{Recv: "simpleFileReader", Func: "Read", Name: "fileRead", Args: []string{"p"}},
	{Recv: "archiveFileReader", Func: "Read", Name: "archiveRead", Args: []string{"p"}},
	{Recv: "archiveFileWriter", Func: "Write", Name: "archiveWrite", Args: []string{"p"}},
	{Recv: "trzszTransfer", Func: "writeAll", Name: "writeAll", Args: []string{"buf"}},
}

// ObsHooks: observation-only hooks `vs.Obs(name, args...)` at function entry (no error return).
var ObsHooks = []Hook{
	{Recv: "trzszTransfer", Func: "addReceivedData", Name: "addReceivedData", Args: []string{"buf", "tunnel"}},
}

// Touch (R10): plain fields shared without synchronisation; a selector expression x.<field> used
// in a statement makes that statement a scheduling point.
var TouchFields = map[string]bool{
	"lastChunkTimeArr": true, "cleanupTimer": true, "newTimeout": true,
}

type rewriter struct {
	fset  *token.FileSet
	info  *types.Info
	used  bool
	tmpN  int
	stats map[string]int
	errs  *[]string
	encl  map[*ast.GoStmt]string // enclosing function of every go statement
}

func id(name string) *ast.Ident { return ast.NewIdent(name) }
func vs(name string) ast.Expr   { return &ast.SelectorExpr{X: id("vs"), Sel: id(name)} }
func call(fun ast.Expr, args ...ast.Expr) *ast.CallExpr {
	return &ast.CallExpr{Fun: fun, Args: args}
}
func intLit(i int) ast.Expr { return &ast.BasicLit{Kind: token.INT, Value: strconv.Itoa(i)} }
func strLit(s string) ast.Expr {
	return &ast.BasicLit{Kind: token.STRING, Value: strconv.Quote(s)}
}

func (r *rewriter) tmp(prefix string) *ast.Ident {
	r.tmpN++
	return id(fmt.Sprintf("zzv_%s%d", prefix, r.tmpN))
}

func (r *rewriter) isChan(e ast.Expr) bool {
	t := r.info.TypeOf(e)
	if t == nil {
		return false
	}
	_, ok := t.Underlying().(*types.Chan)
	return ok
}

func (r *rewriter) isBuiltin(e ast.Expr, name string) bool {
	i, ok := e.(*ast.Ident)
	if !ok || i.Name != name {
		return false
	}
	_, ok = r.info.Uses[i].(*types.Builtin)
	return ok
}

func isNil(e ast.Expr) bool { i, ok := e.(*ast.Ident); return ok && i.Name == "nil" }

func define(lhs []ast.Expr, rhs []ast.Expr) ast.Stmt {
	return &ast.AssignStmt{Lhs: lhs, Tok: token.DEFINE, Rhs: rhs}
}

// simple reports whether evaluating e cannot block or have side effects worth ordering
// (identifiers, selectors, literals, conversions of those).
func simple(e ast.Expr) bool {
	switch x := e.(type) {
	case *ast.Ident, *ast.BasicLit:
		return true
	case *ast.SelectorExpr:
		return simple(x.X)
	case *ast.ParenExpr:
		return simple(x.X)
	case *ast.StarExpr:
		return simple(x.X)
	case *ast.UnaryExpr:
		return x.Op != token.ARROW && simple(x.X)
	case *ast.BinaryExpr:
		return simple(x.X) && simple(x.Y)
	case *ast.CompositeLit:
		for _, el := range x.Elts {
			if kv, ok := el.(*ast.KeyValueExpr); ok {
				if !simple(kv.Value) {
					return false
				}
			} else if !simple(el) {
				return false
			}
		}
		return true
	case *ast.IndexExpr:
		return simple(x.X) && simple(x.Index)
	case *ast.SliceExpr:
		return simple(x.X) && (x.Low == nil || simple(x.Low)) && (x.High == nil || simple(x.High))
	}
	return false
}

// rewriteSelect implements R6.
func (r *rewriter) rewriteSelect(s *ast.SelectStmt) ast.Stmt {
	r.used = true
	r.stats["select"]++
	var pre []ast.Stmt
	var probes []ast.Expr
	hasDefault := false
	sel := r.tmp("sel")
	idx := 0
	for _, cc := range s.Body.List {
		c := cc.(*ast.CommClause)
		if c.Comm == nil {
			hasDefault = true
			continue
		}
		switch st := c.Comm.(type) {
		case *ast.SendStmt:
			ct := r.tmp("c")
			pre = append(pre, define([]ast.Expr{ct}, []ast.Expr{st.Chan}))
			if !simple(st.Value) {
				// typed temporary: keep Go's assignability by declaring it with the channel's element type
				vt := r.tmp("v")
				pre = append(pre, define([]ast.Expr{vt}, []ast.Expr{st.Value}))
				st.Value = vt
			}
			st.Chan = call(vs("OnlySend"), sel, intLit(idx), ct)
			probes = append(probes, call(vs("SendProbe"), ct))
		case *ast.ExprStmt:
			u := unparen(st.X).(*ast.UnaryExpr)
			ct := r.tmp("c")
			pre = append(pre, define([]ast.Expr{ct}, []ast.Expr{u.X}))
			u.X = call(vs("Only"), sel, intLit(idx), ct)
			probes = append(probes, call(vs("RecvProbe"), ct))
		case *ast.AssignStmt:
			u := unparen(st.Rhs[0]).(*ast.UnaryExpr)
			ct := r.tmp("c")
			pre = append(pre, define([]ast.Expr{ct}, []ast.Expr{u.X}))
			u.X = call(vs("Only"), sel, intLit(idx), ct)
			probes = append(probes, call(vs("RecvProbe"), ct))
		default:
			panic(fmt.Sprintf("unknown comm %T", st))
		}
		idx++
	}
	hd := id("false")
	if hasDefault {
		hd = id("true")
	}
	pre = append(pre, define([]ast.Expr{sel}, []ast.Expr{call(vs("Select"), append([]ast.Expr{hd}, probes...)...)}))
	pre = append(pre, s)
	return &ast.BlockStmt{List: pre}
}

func unparen(e ast.Expr) ast.Expr {
	for {
		p, ok := e.(*ast.ParenExpr)
		if !ok {
			return e
		}
		e = p.X
	}
}

func (r *rewriter) rewriteGo(g *ast.GoStmt) ast.Stmt {
	r.used = true
	r.stats["go"]++
	pos := r.fset.Position(g.Pos())
	label := strLit(fmt.Sprintf("%s/%s:%d", r.encl[g], filepath.Base(pos.Filename), pos.Line))
	c := g.Call
	if fl, ok := c.Fun.(*ast.FuncLit); ok && len(c.Args) == 0 {
		return &ast.ExprStmt{X: call(vs("Go"), label, fl)}
	}
	var pre []ast.Stmt
	fun := c.Fun
	switch f := fun.(type) {
	case *ast.FuncLit:
	case *ast.Ident:
		_ = f
	default:
		ft := r.tmp("f")
		pre = append(pre, define([]ast.Expr{ft}, []ast.Expr{fun}))
		fun = ft
	}
	var args []ast.Expr
	for _, a := range c.Args {
		if isNil(a) {
			args = append(args, a)
			continue
		}
		at := r.tmp("a")
		pre = append(pre, define([]ast.Expr{at}, []ast.Expr{a}))
		args = append(args, at)
	}
	inner := &ast.CallExpr{Fun: fun, Args: args, Ellipsis: c.Ellipsis}
	if c.Ellipsis != token.NoPos {
		inner.Ellipsis = 1
	}
	body := &ast.FuncLit{Type: &ast.FuncType{Params: &ast.FieldList{}}, Body: &ast.BlockStmt{List: []ast.Stmt{&ast.ExprStmt{X: inner}}}}
	pre = append(pre, &ast.ExprStmt{X: call(vs("Go"), label, body)})
	return &ast.BlockStmt{List: pre}
}

func (r *rewriter) rewriteRange(s *ast.RangeStmt, labelled bool) ast.Stmt {
	r.used = true
	r.stats["rangechan"]++
	ok := r.tmp("ok")
	var pre []ast.Stmt
	ch := s.X
	if !labelled && !simple(ch) {
		ct := r.tmp("c")
		pre = append(pre, define([]ast.Expr{ct}, []ast.Expr{s.X}))
		ch = ct
	} else if !simple(ch) {
		*r.errs = append(*r.errs, fmt.Sprintf("%s: labelled range over a non-trivial channel expression", r.fset.Position(s.Pos())))
	}
	var key ast.Expr = id("_")
	tok := token.DEFINE
	if s.Key != nil {
		key = s.Key
		if s.Tok == token.ASSIGN {
			tok = token.ASSIGN
		}
	}
	body := []ast.Stmt{}
	recv := &ast.UnaryExpr{Op: token.ARROW, X: call(vs("R"), ch)}
	if tok == token.DEFINE {
		body = append(body, &ast.AssignStmt{Lhs: []ast.Expr{key, ok}, Tok: token.DEFINE, Rhs: []ast.Expr{recv}})
	} else {
		body = append(body, &ast.DeclStmt{Decl: &ast.GenDecl{Tok: token.VAR, Specs: []ast.Spec{&ast.ValueSpec{Names: []*ast.Ident{ok}, Type: id("bool")}}}})
		body = append(body, &ast.AssignStmt{Lhs: []ast.Expr{key, ok}, Tok: token.ASSIGN, Rhs: []ast.Expr{recv}})
	}
	body = append(body, &ast.IfStmt{Cond: &ast.UnaryExpr{Op: token.NOT, X: ok}, Body: &ast.BlockStmt{List: []ast.Stmt{&ast.BranchStmt{Tok: token.BREAK}}}})
	body = append(body, s.Body.List...)
	f := &ast.ForStmt{Body: &ast.BlockStmt{List: body}}
	if len(pre) == 0 {
		return f
	}
	return &ast.BlockStmt{List: append(pre, f)}
}

func recvTypeName(fd *ast.FuncDecl) string {
	if fd.Recv == nil || len(fd.Recv.List) == 0 {
		return ""
	}
	t := fd.Recv.List[0].Type
	if s, ok := t.(*ast.StarExpr); ok {
		t = s.X
	}
	if i, ok := t.(*ast.Ident); ok {
		return i.Name
	}
	return ""
}

func (r *rewriter) zeroOf(t ast.Expr) ast.Expr {
	tt := r.info.TypeOf(t)
	if tt == nil {
		return id("nil")
	}
	switch u := tt.Underlying().(type) {
	case *types.Basic:
		switch {
		case u.Info()&types.IsBoolean != 0:
			return id("false")
		case u.Info()&types.IsString != 0:
			return strLit("")
		case u.Info()&types.IsNumeric != 0:
			return intLit(0)
		}
	}
	return id("nil")
}

func (r *rewriter) applyHooks(fd *ast.FuncDecl) {
	if fd.Body == nil {
		return
	}
	rt := recvTypeName(fd)
	// R12: process-wide switches become per-thread attributes so that the two ends of a transfer can
	// differ inside one process: isWindowsEnvironment() also holds on threads flagged "win".
	if rt == "" && fd.Name.Name == "isWindowsEnvironment" && len(fd.Body.List) == 1 {
		if ret, ok := fd.Body.List[0].(*ast.ReturnStmt); ok && len(ret.Results) == 1 {
			ret.Results[0] = &ast.BinaryExpr{X: ret.Results[0], Op: token.LOR, Y: call(vs("Flag"), strLit("win"))}
			r.used = true
			r.stats["flagfn"]++
		}
	}
	// R13: listenForTunnel() opens a fake listener under the scheduler
	if rt == "" && fd.Name.Name == "listenForTunnel" && fd.Type.Results != nil && len(fd.Type.Results.List) == 2 {
		st := &ast.IfStmt{
			Init: define([]ast.Expr{id("zzv_l"), id("zzv_p")}, []ast.Expr{call(vs("Listen"))}),
			Cond: &ast.BinaryExpr{X: id("zzv_l"), Op: token.NEQ, Y: id("nil")},
			Body: &ast.BlockStmt{List: []ast.Stmt{&ast.ReturnStmt{Results: []ast.Expr{id("zzv_l"), id("zzv_p")}}}},
		}
		fd.Body.List = append([]ast.Stmt{st}, fd.Body.List...)
		r.used = true
		r.stats["listenfn"]++
	}
	for _, h := range Hooks {
		if h.Recv != rt || h.Func != fd.Name.Name {
			continue
		}
		res := fd.Type.Results
		if res == nil || len(res.List) == 0 {
			continue
		}
		var rets []ast.Expr
		for i, f := range res.List {
			n := len(f.Names)
			if n == 0 {
				n = 1
			}
			for k := 0; k < n; k++ {
				if i == len(res.List)-1 && k == n-1 {
					rets = append(rets, id("zzv_err"))
				} else {
					rets = append(rets, r.zeroOf(f.Type))
				}
			}
		}
		args := []ast.Expr{strLit(h.Name)}
		for _, a := range h.Args {
			args = append(args, id(a))
		}
		st := &ast.IfStmt{
			Init: define([]ast.Expr{id("zzv_err")}, []ast.Expr{call(vs("Hook"), args...)}),
			Cond: &ast.BinaryExpr{X: id("zzv_err"), Op: token.NEQ, Y: id("nil")},
			Body: &ast.BlockStmt{List: []ast.Stmt{&ast.ReturnStmt{Results: rets}}},
		}
		fd.Body.List = append([]ast.Stmt{st}, fd.Body.List...)
		r.used = true
		r.stats["hook"]++
	}
	for _, h := range ObsHooks {
		if h.Recv != rt || h.Func != fd.Name.Name {
			continue
		}
		args := []ast.Expr{strLit(h.Name)}
		for _, a := range h.Args {
			args = append(args, id(a))
		}
		fd.Body.List = append([]ast.Stmt{&ast.ExprStmt{X: call(vs("Obs"), args...)}}, fd.Body.List...)
		r.used = true
		r.stats["obshook"]++
	}
}

// touchedField returns the name of a TouchFields selector used directly in stmt (not in nested blocks).
func touchedField(s ast.Stmt) string {
	found := ""
	ast.Inspect(s, func(n ast.Node) bool {
		switch x := n.(type) {
		case *ast.BlockStmt, *ast.FuncLit:
			return false
		case *ast.SelectorExpr:
			if TouchFields[x.Sel.Name] {
				found = x.Sel.Name
			}
		}
		return found == ""
	})
	return found
}

func (r *rewriter) applyTouches(f *ast.File) {
	astutil.Apply(f, nil, func(c *astutil.Cursor) bool {
		blk, ok := c.Node().(*ast.BlockStmt)
		if !ok {
			return true
		}
		var out []ast.Stmt
		for _, st := range blk.List {
			switch st.(type) {
			case *ast.AssignStmt, *ast.ExprStmt, *ast.IncDecStmt, *ast.ReturnStmt:
				if name := touchedField(st); name != "" {
					out = append(out, &ast.ExprStmt{X: call(vs("Touch"), strLit(name))})
					r.used = true
					r.stats["touch"]++
				}
			case *ast.IfStmt:
				is := st.(*ast.IfStmt)
				name := ""
				if is.Init != nil {
					name = touchedField(is.Init)
				}
				if name == "" {
					name = touchedField(&ast.ExprStmt{X: is.Cond})
				}
				if name != "" {
					out = append(out, &ast.ExprStmt{X: call(vs("Touch"), strLit(name))})
					r.used = true
					r.stats["touch"]++
				}
			}
			out = append(out, st)
		}
		blk.List = out
		return true
	})
}

// constToVar implements R11: `const kPrefixHashStep = <expr>` becomes `var kPrefixHashStep int64 = <expr>`
// (every use in the package is int64-compatible), so that the scaled tier of C08 can shrink the
// comparison block without a second build.
func (r *rewriter) constToVar(f *ast.File) {
	for _, d := range f.Decls {
		gd, ok := d.(*ast.GenDecl)
		if !ok || gd.Tok != token.CONST || len(gd.Specs) != 1 {
			continue
		}
		vsp := gd.Specs[0].(*ast.ValueSpec)
		if len(vsp.Names) == 1 && vsp.Names[0].Name == "kPrefixHashStep" && vsp.Type == nil {
			gd.Tok = token.VAR
			vsp.Type = id("int64")
			r.stats["const2var"]++
		}
	}
}

func (r *rewriter) file(f *ast.File) {
	r.constToVar(f)
	// R9 first (uses type info of the original nodes)
	r.encl = map[*ast.GoStmt]string{}
	for _, d := range f.Decls {
		if fd, ok := d.(*ast.FuncDecl); ok {
			r.applyHooks(fd)
			name := fd.Name.Name
			if rt := recvTypeName(fd); rt != "" {
				name = rt + "." + name
			}
			ast.Inspect(fd, func(n ast.Node) bool {
				if g, ok := n.(*ast.GoStmt); ok {
					r.encl[g] = name
				}
				return true
			})
		}
	}
	r.applyTouches(f)
	// mark select comm statements so that the generic send/recv rules leave them alone
	inComm := map[ast.Node]bool{}
	ast.Inspect(f, func(n ast.Node) bool {
		if s, ok := n.(*ast.SelectStmt); ok {
			for _, cc := range s.Body.List {
				c := cc.(*ast.CommClause)
				if c.Comm == nil {
					continue
				}
				inComm[c.Comm] = true
				switch st := c.Comm.(type) {
				case *ast.ExprStmt:
					inComm[unparen(st.X)] = true
				case *ast.AssignStmt:
					inComm[unparen(st.Rhs[0])] = true
				}
			}
		}
		return true
	})
	astutil.Apply(f, nil, func(c *astutil.Cursor) bool {
		switch n := c.Node().(type) {
		case *ast.SelectStmt:
			if _, labelled := c.Parent().(*ast.LabeledStmt); labelled {
				*r.errs = append(*r.errs, fmt.Sprintf("%s: labelled select is not supported by the instrumentation", r.fset.Position(n.Pos())))
				return true
			}
			c.Replace(r.rewriteSelect(n))
		case *ast.GoStmt:
			c.Replace(r.rewriteGo(n))
		case *ast.SendStmt:
			if inComm[n] {
				return true
			}
			r.used = true
			r.stats["send"]++
			if !simple(n.Value) {
				// hoist the value so that nothing runs between the scheduling point and the send;
				// only possible when the statement sits directly in a block
				if _, ok := c.Parent().(*ast.BlockStmt); ok && c.Index() >= 0 {
					vt := r.tmp("v")
					c.InsertBefore(define([]ast.Expr{vt}, []ast.Expr{n.Value}))
					n.Value = vt
					r.stats["send-hoist"]++
				}
			}
			n.Chan = call(vs("S"), n.Chan)
		case *ast.UnaryExpr:
			if n.Op != token.ARROW || inComm[n] {
				return true
			}
			r.used = true
			r.stats["recv"]++
			n.X = call(vs("R"), n.X)
		case *ast.RangeStmt:
			if r.isChan(n.X) {
				_, labelled := c.Parent().(*ast.LabeledStmt)
				c.Replace(r.rewriteRange(n, labelled))
			}
		case *ast.SelectorExpr:
			// R14a: the product's one io.Pipe (input pump -> stop/continue menu) becomes a scheduler-aware pipe
			if x, ok := n.X.(*ast.Ident); ok {
				if pn, ok := r.info.Uses[x].(*types.PkgName); ok && pn.Imported().Path() == "io" {
					switch n.Sel.Name {
					case "Pipe":
						c.Replace(vs("IOPipe"))
						r.used = true
						r.stats["iopipe"]++
					case "PipeWriter", "PipeReader":
						c.Replace(vs(n.Sel.Name))
						r.used = true
						r.stats["iopipe-type"]++
					}
				}
			}
		case *ast.CallExpr:
			// R14b: promptui.Select.Run() is replaced by a model that reads the same stdin and draws on the same stdout
			if sel, ok := n.Fun.(*ast.SelectorExpr); ok && sel.Sel.Name == "Run" && len(n.Args) == 0 {
				if t := r.info.TypeOf(sel.X); t != nil && strings.HasSuffix(t.String(), "promptui.Select") {
					c.Replace(call(vs("PromptRun"),
						&ast.SelectorExpr{X: sel.X, Sel: id("Stdin")},
						&ast.SelectorExpr{X: sel.X, Sel: id("Stdout")},
						&ast.SelectorExpr{X: sel.X, Sel: id("Items")}))
					r.used = true
					r.stats["prompt"]++
					return true
				}
			}
			if r.isBuiltin(n.Fun, "close") {
				r.used = true
				r.stats["close"]++
				n.Fun = vs("Close")
			}
			if r.isBuiltin(n.Fun, "make") && len(n.Args) >= 1 {
				if t := r.info.TypeOf(n.Args[0]); t != nil {
					if _, ok := t.Underlying().(*types.Chan); ok && len(n.Args) == 1 {
						// unbuffered channels are fine as long as they are only closed and received from;
						// a send on one under the scheduler is reported as a tool error at run time
						r.stats["unbuffered-chan"]++
					}
				}
			}
		}
		return true
	})
	rewriteImports(f)
	if r.used {
		astutil.AddNamedImport(r.fset, f, "vs", ShimBase)
	}
	// keep only comments before the package clause (build constraints, licence)
	var keep []*ast.CommentGroup
	for _, cg := range f.Comments {
		if cg.End() < f.Package {
			keep = append(keep, cg)
		}
	}
	f.Comments = keep
}

func rewriteImports(f *ast.File) bool {
	changed := false
	for _, imp := range f.Imports {
		p, _ := strconv.Unquote(imp.Path.Value)
		if m, ok := importMap[p]; ok {
			imp.Path.Value = strconv.Quote(m[0])
			if imp.Name == nil {
				imp.Name = id(m[1])
			}
			changed = true
		}
		if p == "os/exec" && strings.HasSuffix(f.Name.Name, "trzsz") {
			// R8 is applied per file by the caller
		}
	}
	return changed
}

// TreeHash hashes everything the instrumented build depends on: the package sources, go.mod/go.sum
// of the repo, the engine and the harness.
func TreeHash(repo, verif string) (string, error) {
	h := sha256.New()
	var files []string
	for _, pat := range []string{
		filepath.Join(repo, "trzsz", "*.go"), filepath.Join(repo, "go.mod"), filepath.Join(repo, "go.sum"),
		filepath.Join(verif, "engine", "vsched", "*.go"), filepath.Join(verif, "engine", "vsched", "*", "*.go"),
		filepath.Join(verif, "engine", "rewrite", "*.go"),
		filepath.Join(verif, "harness", "*.go"), filepath.Join(verif, "cmd", "vrun", "*.go"),
		filepath.Join(verif, "go.mod"),
	} {
		m, _ := filepath.Glob(pat)
		files = append(files, m...)
	}
	sort.Strings(files)
	for _, f := range files {
		b, err := os.ReadFile(f)
		if err != nil {
			return "", err
		}
		fmt.Fprintf(h, "%s %d\n", f, len(b))
		h.Write(b)
	}
	return hex.EncodeToString(h.Sum(nil))[:16], nil
}

// Generate writes the instrumented package into out and returns the overlay file path.
// Options.ExecFiles: files whose "os/exec" import is redirected to vexec (R8).
func Generate(repo, verif, out string) (string, map[string]int, error) {
	cfg := &packages.Config{Mode: packages.NeedName | packages.NeedFiles | packages.NeedSyntax | packages.NeedTypes | packages.NeedTypesInfo | packages.NeedImports | packages.NeedDeps, Dir: repo,
		Env: append(os.Environ(), "GOFLAGS=-mod=mod", "GOPROXY=off", "GOSUMDB=off", "GOTOOLCHAIN=local", "GOOS=linux")}
	pkgs, err := packages.Load(cfg, "./trzsz")
	if err != nil {
		return "", nil, err
	}
	if len(pkgs) != 1 {
		return "", nil, fmt.Errorf("expected one package, got %d", len(pkgs))
	}
	p := pkgs[0]
	if len(p.Errors) > 0 {
		var sb strings.Builder
		for _, e := range p.Errors {
			sb.WriteString(e.Error() + "\n")
		}
		return "", nil, fmt.Errorf("package does not type-check:\n%s", sb.String())
	}
	if err := os.MkdirAll(out, 0o755); err != nil {
		return "", nil, err
	}
	replace := map[string]string{}
	total := map[string]int{}
	var errs []string
	for _, f := range p.Syntax {
		r := &rewriter{fset: p.Fset, info: p.TypesInfo, stats: total, errs: &errs}
		src := p.Fset.Position(f.Package).Filename
		r.file(f)
		if filepath.Base(src) == "zmodem.go" {
			for _, imp := range f.Imports {
				if pth, _ := strconv.Unquote(imp.Path.Value); pth == "os/exec" {
					imp.Path.Value = strconv.Quote(ShimBase + "/vexec")
					imp.Name = id("exec")
					total["import:os/exec"]++
				}
			}
		}
		var buf bytes.Buffer
		if err := printer.Fprint(&buf, p.Fset, f); err != nil {
			return "", nil, err
		}
		dst := filepath.Join(out, filepath.Base(src))
		if err := os.WriteFile(dst, buf.Bytes(), 0o644); err != nil {
			return "", nil, err
		}
		replace[src] = dst
	}
	if total["const2var"] != 1 {
		errs = append(errs, "const kPrefixHashStep not found in the expected form (rule R11)")
	}
	if total["listenfn"] != 1 {
		errs = append(errs, "listenForTunnel() not found in the expected form (rule R13)")
	}
	if total["flagfn"] != 1 {
		errs = append(errs, "isWindowsEnvironment() not found in the expected one-statement form (rule R12)")
	}
	if total["iopipe"] != 1 || total["prompt"] != 1 {
		errs = append(errs, fmt.Sprintf("expected exactly one io.Pipe() and one promptui.Select.Run() in the package (rule R14), found %d / %d", total["iopipe"], total["prompt"]))
	}
	if len(errs) > 0 {
		return "", nil, fmt.Errorf("constructs the instrumentation cannot express:\n%s", strings.Join(errs, "\n"))
	}
	// test files: R1 only (syntactic), so that the pinned suite compiles against the shim types
	tests, _ := filepath.Glob(filepath.Join(repo, "trzsz", "*_test.go"))
	for _, tf := range tests {
		fset := token.NewFileSet()
		f, err := parser.ParseFile(fset, tf, nil, parser.ParseComments)
		if err != nil {
			return "", nil, err
		}
		if rewriteImports(f) {
			var buf bytes.Buffer
			printer.Fprint(&buf, fset, f)
			dst := filepath.Join(out, filepath.Base(tf))
			os.WriteFile(dst, buf.Bytes(), 0o644)
			replace[tf] = dst
		}
	}
	// shim packages -> virtual directory inside the repo module
	shim := filepath.Join(verif, "engine", "vsched")
	filepath.Walk(shim, func(path string, info os.FileInfo, err error) error {
		if err == nil && !info.IsDir() && strings.HasSuffix(path, ".go") {
			rel, _ := filepath.Rel(shim, path)
			replace[filepath.Join(repo, "zzverif", "vsched", rel)] = path
		}
		return nil
	})
	// harness files -> package trzsz
	hs, _ := filepath.Glob(filepath.Join(verif, "harness", "*.go"))
	for _, h := range hs {
		replace[filepath.Join(repo, "trzsz", filepath.Base(h))] = h
	}
	js, _ := json.MarshalIndent(map[string]any{"Replace": replace}, "", " ")
	ov := filepath.Join(out, "overlay.json")
	if err := os.WriteFile(ov, js, 0o644); err != nil {
		return "", nil, err
	}
	return ov, total, nil
}
