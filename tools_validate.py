#!/usr/bin/env python3
# validates MANIFEST.json and every evidence file against the schemas in /root/.vp
import json,sys,glob
import jsonschema
ok=True
def check(path,schema):
    global ok
    try:
        jsonschema.validate(json.load(open(path)),json.load(open(schema)))
        print("valid",path)
    except Exception as e:
        ok=False; print("INVALID",path,str(e)[:500])
check('/verif/MANIFEST.json','/root/.vp/MANIFEST.schema.json')
for f in sorted(glob.glob('/verif/evidence/*.json')): check(f,'/root/.vp/EVIDENCE.schema.json')
sys.exit(0 if ok else 1)
