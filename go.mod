module verif

go 1.22.0

toolchain go1.23.5

require (
	github.com/mattn/go-runewidth v0.0.16
	github.com/trzsz/trzsz-go v0.0.0
	golang.org/x/tools v0.29.0
)

require (
	github.com/alexflint/go-scalar v1.2.0 // indirect
	github.com/atotto/clipboard v0.1.4 // indirect
	github.com/aymanbagabas/go-osc52/v2 v2.0.1 // indirect
	github.com/charmbracelet/lipgloss v0.12.1 // indirect
	github.com/charmbracelet/x/ansi v0.1.4 // indirect
	github.com/chzyer/readline v1.5.1 // indirect
	github.com/creack/pty v1.1.23 // indirect
	github.com/google/shlex v0.0.0-20191202100458-e7afc7fbc510 // indirect
	github.com/klauspost/compress v1.17.9 // indirect
	github.com/lucasb-eyer/go-colorful v1.2.0 // indirect
	github.com/mattn/go-isatty v0.0.20 // indirect
	github.com/muesli/termenv v0.15.2 // indirect
	github.com/ncruces/zenity v0.10.13 // indirect
	github.com/rivo/uniseg v0.4.7 // indirect
	github.com/trzsz/go-arg v1.5.4 // indirect
	github.com/trzsz/promptui v0.10.8 // indirect
	golang.org/x/image v0.19.0 // indirect
	golang.org/x/mod v0.22.0 // indirect
	golang.org/x/sync v0.10.0 // indirect
	golang.org/x/sys v0.29.0 // indirect
	golang.org/x/term v0.23.0 // indirect
	golang.org/x/text v0.17.0 // indirect
)

replace github.com/trzsz/trzsz-go => /repo
